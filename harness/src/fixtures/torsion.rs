//! Builds signature encodings that are on the BLS12-381 curve but outside the prime-order
//! subgroup: a genuine signature plus a small-order (cofactor torsion) point. The pairing
//! equation cannot tell them apart, only a subgroup check can.

use std::sync::OnceLock;

use blst::{BLST_ERROR, blst_p1, blst_p1_affine};

const GROUP_ORDER_LE: [u8; 32] = [
    0x01, 0x00, 0x00, 0x00, 0xff, 0xff, 0xff, 0xff, 0xfe, 0x5b, 0xfe, 0xff, 0x02, 0xa4, 0xbd, 0x53, 0x05, 0xd8, 0xa1, 0x09, 0x08, 0xd8, 0x39, 0x33, 0x48,
    0x7d, 0x9d, 0x29, 0x53, 0xa7, 0xed, 0x73,
];

fn torsion_point() -> &'static blst_p1 {
    static T: OnceLock<blst_p1> = OnceLock::new();
    T.get_or_init(|| {
        for x in 1..=u8::MAX {
            let mut compressed = [0u8; 48];
            compressed[0] = 0x80;
            compressed[47] = x;
            let mut affine = blst_p1_affine::default();
            // SAFETY: `compressed` holds the 48 bytes read by blst_p1_uncompress.
            let res = unsafe { blst::blst_p1_uncompress(&mut affine, compressed.as_ptr()) };
            if res != BLST_ERROR::BLST_SUCCESS {
                continue;
            }
            let mut point = blst_p1::default();
            let mut torsion = blst_p1::default();
            // SAFETY: valid pointers; the scalar has 32 bytes >= 255 bits.
            let is_inf = unsafe {
                blst::blst_p1_from_affine(&mut point, &affine);
                blst::blst_p1_mult(&mut torsion, &point, GROUP_ORDER_LE.as_ptr(), 255);
                blst::blst_p1_is_inf(&torsion)
            };
            if !is_inf {
                return torsion;
            }
        }
        panic!("no torsion point found");
    })
}

/// `sig` (96-byte uncompressed G1 point) plus a small-order point; None if `sig` does not decode.
pub fn add_torsion(sig: &[u8]) -> Option<Vec<u8>> {
    if sig.len() != 96 {
        return None;
    }
    let mut affine = blst_p1_affine::default();
    let mut point = blst_p1::default();
    let mut sum = blst_p1::default();
    let mut out = vec![0u8; 96];
    // SAFETY: `sig` has 96 bytes, `out` has room for 96 bytes, pointers are valid.
    unsafe {
        if blst::blst_p1_deserialize(&mut affine, sig.as_ptr()) != BLST_ERROR::BLST_SUCCESS {
            return None;
        }
        blst::blst_p1_from_affine(&mut point, &affine);
        blst::blst_p1_add_or_double(&mut sum, &point, torsion_point());
        if blst::blst_p1_in_g1(&sum) {
            return None;
        }
        blst::blst_p1_serialize(out.as_mut_ptr(), &sum);
    }
    Some(out)
}
