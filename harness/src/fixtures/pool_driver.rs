//! P-driver: one real `PoolImpl` whose two output channels are owned by the harness.

use std::sync::Arc;

use alpenglow::BlockId;
use alpenglow::consensus::{
    AddVoteError, Cert, EpochInfo, Pool, PoolEvent, PoolImpl, ValidatedCert, ValidatedVote, ValidatorEpochInfo,
};
use alpenglow::types::Slot;
use tokio::sync::mpsc::{Receiver, channel};

use super::epoch::validator_epoch;
use super::votes::{CertSpec, VoteSpec, make_cert, valid_vote};
use super::{block_hash, block_on};
use crate::engine::catch;

pub struct PoolDriver {
    pub pool: PoolImpl,
    pub events: Receiver<PoolEvent>,
    pub repairs: Receiver<BlockId>,
    pub vepoch: Arc<ValidatorEpochInfo>,
    pub stakes: Vec<u64>,
    pub own: usize,
}

/// Everything one pool call produced.
#[derive(Debug, Default)]
pub struct CallOutput {
    pub events: Vec<PoolEvent>,
    pub repairs: Vec<BlockId>,
    /// `Some(description)` if the call panicked.
    pub panic: Option<String>,
}

pub fn bid(slot: u64, tag: u64) -> BlockId {
    if slot == 0 {
        (Slot::genesis(), alpenglow::crypto::merkle::GENESIS_BLOCK_HASH)
    } else {
        (Slot::new(slot), block_hash(tag))
    }
}

impl PoolDriver {
    pub fn new(stakes: &[u64], own: usize) -> Self {
        let vepoch = validator_epoch(stakes, own);
        let (tx, events) = channel(4096);
        let (rtx, repairs) = channel(4096);
        let pool = PoolImpl::new(vepoch.clone(), tx, rtx);
        Self { pool, events, repairs, vepoch, stakes: stakes.to_vec(), own }
    }

    pub fn epoch(&self) -> &EpochInfo {
        self.vepoch.epoch_info()
    }

    pub fn total(&self) -> u128 {
        self.stakes.iter().map(|s| *s as u128).sum()
    }

    fn drain(&mut self, out: &mut CallOutput) {
        while let Ok(e) = self.events.try_recv() {
            out.events.push(e);
        }
        while let Ok(r) = self.repairs.try_recv() {
            out.repairs.push(r);
        }
    }

    pub fn add_vote(&mut self, spec: VoteSpec) -> (Option<Result<(), AddVoteError>>, CallOutput) {
        let v = valid_vote(spec, self.vepoch.epoch_info());
        self.add_validated_vote(v)
    }

    pub fn add_validated_vote(&mut self, v: ValidatedVote) -> (Option<Result<(), AddVoteError>>, CallOutput) {
        let mut out = CallOutput::default();
        let pool = &mut self.pool;
        let res = catch(|| block_on(pool.add_vote(v)));
        let res = match res {
            Ok(r) => Some(r),
            Err(p) => {
                out.panic = Some(p);
                None
            }
        };
        self.drain(&mut out);
        (res, out)
    }

    /// Adds a certificate. Returns `None` as verdict when the call panicked; `Err(text)` when
    /// the pool refused it.
    pub fn add_cert(&mut self, cert: ValidatedCert) -> (Option<Result<(), String>>, CallOutput) {
        let mut out = CallOutput::default();
        let pool = &mut self.pool;
        let res = catch(|| block_on(pool.add_cert(cert)));
        let res = match res {
            Ok(r) => Some(r.map_err(|e| format!("{e:?}"))),
            Err(p) => {
                out.panic = Some(p);
                None
            }
        };
        self.drain(&mut out);
        (res, out)
    }

    pub fn add_cert_spec(&mut self, spec: &CertSpec) -> Result<(Option<Result<(), String>>, CallOutput), String> {
        let cert = make_cert(spec, self.epoch().validators());
        let v = ValidatedCert::try_new(cert, self.epoch()).map_err(|e| format!("{e}"))?;
        Ok(self.add_cert(v))
    }

    pub fn add_block(&mut self, block: BlockId, parent: BlockId) -> CallOutput {
        let mut out = CallOutput::default();
        let pool = &mut self.pool;
        if let Err(p) = catch(|| block_on(pool.add_block(block, parent))) {
            out.panic = Some(p);
        }
        self.drain(&mut out);
        out
    }

    pub fn recover_from_standstill(&mut self) -> CallOutput {
        let mut out = CallOutput::default();
        let pool = &self.pool;
        if let Err(p) = catch(|| block_on(pool.recover_from_standstill())) {
            out.panic = Some(p);
        }
        self.drain(&mut out);
        out
    }

    pub fn finalized_slot(&self) -> u64 {
        self.pool.finalized_slot().inner()
    }
}

/// Certificates announced as created in a call output.
pub fn created_certs(out: &CallOutput) -> Vec<&Cert> {
    out.events
        .iter()
        .filter_map(|e| if let PoolEvent::CertCreated(c) = e { Some(c) } else { None })
        .collect()
}
