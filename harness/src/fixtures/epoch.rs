//! Epoch construction with generated stake patterns.

use std::sync::Arc;

use alpenglow::consensus::{EpochInfo, ValidatorEpochInfo};
use alpenglow::network::localhost_ip_sockaddr;
use alpenglow::{Stake, ValidatorIndex, ValidatorInfo};
use proptest::prelude::*;

use super::keys;

pub fn validator_infos(stakes: &[u64]) -> Vec<ValidatorInfo> {
    let k = keys();
    assert!(stakes.len() <= super::MAX_KEYS);
    stakes
        .iter()
        .enumerate()
        .map(|(i, s)| ValidatorInfo {
            id: ValidatorIndex::new(i as u64),
            stake: Stake::new(*s),
            pubkey: k.sig[i].to_pk(),
            voting_pubkey: k.vote[i].to_pk(),
            all2all_address: localhost_ip_sockaddr(1000 + i as u16),
            disseminator_address: localhost_ip_sockaddr(2000 + i as u16),
            repair_requester_address: localhost_ip_sockaddr(3000 + i as u16),
            repair_responder_address: localhost_ip_sockaddr(4000 + i as u16),
        })
        .collect()
}

pub fn epoch(stakes: &[u64]) -> EpochInfo {
    EpochInfo::new(validator_infos(stakes))
}

pub fn validator_epoch(stakes: &[u64], own: usize) -> Arc<ValidatorEpochInfo> {
    Arc::new(ValidatorEpochInfo::new(ValidatorIndex::new(own as u64), epoch(stakes)))
}

/// Exact threshold test in u128: `stake / total >= num / den`.
pub fn meets(stake: u128, total: u128, num: u128, den: u128) -> bool {
    stake * den >= total * num
}

/// Stake vectors of length `n_min..=n_max`, biased to patterns that land exactly on, one below
/// and one above the 20/40/60/80 % thresholds.
pub fn stakes_strategy(n_min: usize, n_max: usize) -> BoxedStrategy<Vec<u64>> {
    let n = n_min..=n_max;
    prop_oneof![
        // equal stakes
        2 => (n.clone(), 1u64..=7).prop_map(|(n, s)| vec![s; n]),
        // small integers
        3 => prop::collection::vec(1u64..=10, n.clone()),
        // heavy tailed
        1 => prop::collection::vec(prop_oneof![1u64..=3, 1u64..=3, 50u64..=200], n.clone()),
        // one dominant validator (possibly >= 60 % or >= 80 % on its own)
        2 => (n.clone(), 0u16.., 55u64..=95).prop_map(|(n, who, pct)| {
            // the others share (100-pct) units as evenly as possible
            let mut v = vec![0u64; n];
            let who = crate::engine::pick_idx(who, n);
            if n == 1 {
                return vec![5];
            }
            let rest = n as u64 - 1;
            let scale = rest * 1; // total = 100*rest so that shares are integral
            for (i, s) in v.iter_mut().enumerate() {
                *s = if i == who { pct * scale } else { 100 - pct };
            }
            v
        }),
        // threshold-exact: total is a multiple of 5 and units are small so that subsets hit
        // exactly k/5 of the total
        4 => (n.clone(), prop::collection::vec(1u64..=4, n_max), 0u64..5).prop_map(|(n, units, _)| {
            let mut v: Vec<u64> = units.into_iter().take(n).collect();
            let sum: u64 = v.iter().sum();
            let rem = sum % 5;
            if rem != 0 {
                // top up the last validator so that total % 5 == 0
                let last = v.len() - 1;
                v[last] += 5 - rem;
            }
            v
        }),
        // large stakes (u128 arithmetic needed for the products)
        1 => (n, prop::collection::vec(1u64..=5, n_max)).prop_map(|(n, units)| {
            let base = u64::MAX / 64;
            units.into_iter().take(n).map(|u| base / 5 * u).collect()
        }),
    ]
    .boxed()
}
