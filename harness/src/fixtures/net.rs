//! Harness-owned network endpoints: a recording `All2All`, async runtimes.

use std::sync::Mutex;

use alpenglow::all2all::All2All;
use alpenglow::consensus::ConsensusMessage;

/// Records every broadcast; `receive` never resolves.
#[derive(Default)]
pub struct RecAll2All {
    pub sent: Mutex<Vec<ConsensusMessage>>,
}

impl RecAll2All {
    pub fn take(&self) -> Vec<ConsensusMessage> {
        std::mem::take(&mut *self.sent.lock().unwrap())
    }
    pub fn len(&self) -> usize {
        self.sent.lock().unwrap().len()
    }
}

impl All2All for RecAll2All {
    async fn broadcast(&self, msg: &ConsensusMessage) -> std::io::Result<()> {
        self.sent.lock().unwrap().push(msg.clone());
        Ok(())
    }
    async fn receive(&self) -> std::io::Result<ConsensusMessage> {
        std::future::pending().await
    }
}

/// Runs `f` on a fresh current-thread runtime (dropped afterwards together with every task it
/// spawned). `paused` starts the clock paused: virtual time then only advances while every
/// task is idle and some task sleeps. The select! branch order is seeded for determinism.
pub fn with_runtime<T>(paused: bool, seed: u64, f: impl std::future::Future<Output = T>) -> T {
    let mut b = tokio::runtime::Builder::new_current_thread();
    b.enable_time();
    b.start_paused(paused);
    b.rng_seed(tokio::runtime::RngSeed::from_bytes(&seed.to_le_bytes()));
    let rt = b.build().expect("runtime");
    let out = rt.block_on(f);
    drop(rt);
    out
}

/// Yields until `probe` returns the same value on `stable` consecutive rounds.
pub async fn settle(mut probe: impl FnMut() -> usize, stable: usize) {
    let mut last = probe();
    let mut same = 0;
    let mut rounds = 0;
    while same < stable && rounds < 10_000 {
        tokio::task::yield_now().await;
        let now = probe();
        if now == last {
            same += 1;
        } else {
            same = 0;
            last = now;
        }
        rounds += 1;
    }
}

/// A shred network that records every send (destination socket addresses); never receives.
#[derive(Default)]
pub struct RecShredNet {
    pub sent: Mutex<Vec<std::net::SocketAddr>>,
}

impl RecShredNet {
    pub fn take(&self) -> Vec<std::net::SocketAddr> {
        std::mem::take(&mut *self.sent.lock().unwrap())
    }
}

impl alpenglow::network::Network for RecShredNet {
    type Send = alpenglow::shredder::Shred;
    type Recv = alpenglow::shredder::Shred;

    async fn send(&self, _message: &Self::Send, addr: std::net::SocketAddr) -> std::io::Result<()> {
        self.sent.lock().unwrap().push(addr);
        Ok(())
    }

    async fn send_to_many(&self, _message: &Self::Send, addrs: impl IntoIterator<Item = std::net::SocketAddr> + Send) -> std::io::Result<()> {
        let mut g = self.sent.lock().unwrap();
        for a in addrs {
            g.push(a);
        }
        Ok(())
    }

    async fn receive(&self) -> std::io::Result<Self::Recv> {
        std::future::pending().await
    }
}
