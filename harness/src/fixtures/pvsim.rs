//! PV-sim: real `PoolImpl` + real `Votor` wired as `Alpenglow::new` wires them, with the pool's
//! event channel tapped by the harness, a recording all-to-all, synthetic block announcements
//! and a paused clock. One harness action at a time, followed by a quiescence barrier.

use std::panic::AssertUnwindSafe;
use std::sync::Arc;

use alpenglow::consensus::{
    AddVoteError, BlockInfo, BlockstoreEvent, ConsensusMessage, Pool, PoolEvent, PoolImpl, ValidatedCert, ValidatedVote, Votor,
};
use alpenglow::types::Slot;
use alpenglow::{BlockId, ValidatorIndex};
use futures::FutureExt;
use tokio::sync::mpsc::{Receiver, Sender, channel};
use tokio::task::JoinHandle;

use super::epoch::validator_epoch;
use super::keys;
use super::net::{RecAll2All, settle};
use crate::engine::take_panics;

pub struct PvNode {
    pub id: usize,
    pub pool: PoolImpl,
    tap_rx: Receiver<PoolEvent>,
    pub repair_rx: Receiver<BlockId>,
    votor_pool_tx: Sender<PoolEvent>,
    votor_bs_tx: Sender<BlockstoreEvent>,
    pub a2a: Arc<RecAll2All>,
    pub votor_task: JoinHandle<()>,
    /// every pool event in emission order, with the step at which it was emitted
    pub events: Vec<(usize, PoolEvent)>,
    pub crashed: bool,
    pub step: usize,
}

/// Result of one pool call made through the node.
pub enum Call<T> {
    Done(T),
    Panicked(String),
}

impl PvNode {
    /// Must be called inside a tokio runtime (Votor::new spawns its timeout task).
    pub fn new(stakes: &[u64], id: usize) -> Self {
        let vepoch = validator_epoch(stakes, id);
        let (tap_tx, tap_rx) = channel(8192);
        let (repair_tx, repair_rx) = channel(8192);
        let pool = PoolImpl::new(vepoch, tap_tx, repair_tx);
        let (votor_pool_tx, votor_pool_rx) = channel(8192);
        let (votor_bs_tx, votor_bs_rx) = channel(8192);
        let a2a = Arc::new(RecAll2All::default());
        let mut votor = Votor::new(ValidatorIndex::new(id as u64), keys().vote[id].clone(), votor_pool_rx, votor_bs_rx, a2a.clone());
        let votor_task = tokio::spawn(async move { votor.voting_loop().await });
        Self { id, pool, tap_rx, repair_rx, votor_pool_tx, votor_bs_tx, a2a, votor_task, events: Vec::new(), crashed: false, step: 0 }
    }

    /// Forwards tapped pool events to the Votor (in order) and waits for quiescence.
    pub async fn pump(&mut self) {
        self.pump_if(true).await;
    }

    /// Like [`Self::pump`], but skips the quiescence barrier when the pool emitted nothing and
    /// `force` is false (the Votor then has no new input).
    pub async fn pump_if(&mut self, force: bool) {
        let mut forwarded = false;
        while let Ok(e) = self.tap_rx.try_recv() {
            self.events.push((self.step, e.clone()));
            let _ = self.votor_pool_tx.send(e).await;
            forwarded = true;
        }
        while self.repair_rx.try_recv().is_ok() {}
        if forwarded || force {
            let a = self.a2a.clone();
            settle(|| a.len(), 4).await;
        }
    }

    pub fn votor_dead(&self) -> Option<String> {
        self.votor_task.is_finished().then(|| take_panics().join(" | "))
    }

    pub async fn add_vote(&mut self, v: ValidatedVote) -> Call<Result<(), AddVoteError>> {
        let r = AssertUnwindSafe(self.pool.add_vote(v)).catch_unwind().await;
        let out = match r {
            Ok(r) => Call::Done(r),
            Err(_) => Call::Panicked(take_panics().join(" | ")),
        };
        self.pump_if(false).await;
        out
    }

    pub async fn add_cert(&mut self, c: ValidatedCert) -> Call<bool> {
        let r = AssertUnwindSafe(self.pool.add_cert(c)).catch_unwind().await;
        let out = match r {
            Ok(r) => Call::Done(r.is_ok()),
            Err(_) => Call::Panicked(take_panics().join(" | ")),
        };
        self.pump_if(false).await;
        out
    }

    /// Announces a reconstructed block the way the node does: blockstore event to the Votor,
    /// then registration in the pool.
    pub async fn block(&mut self, id: BlockId, parent: BlockId, first_shred: bool) -> Call<()> {
        let slot = id.0;
        if first_shred {
            let _ = self.votor_bs_tx.send(BlockstoreEvent::FirstShred(slot)).await;
        }
        let info = BlockInfo::verif_new(id.1.clone(), parent.clone());
        let _ = self.votor_bs_tx.send(BlockstoreEvent::Block { slot, block_info: info }).await;
        let r = AssertUnwindSafe(self.pool.add_block(id, parent)).catch_unwind().await;
        let out = match r {
            Ok(()) => Call::Done(()),
            Err(_) => Call::Panicked(take_panics().join(" | ")),
        };
        self.pump().await;
        out
    }

    pub async fn first_shred(&mut self, slot: u64) {
        let _ = self.votor_bs_tx.send(BlockstoreEvent::FirstShred(Slot::new(slot))).await;
        self.pump().await;
    }

    pub async fn invalid_block(&mut self, slot: u64) {
        let _ = self.votor_bs_tx.send(BlockstoreEvent::InvalidBlock(Slot::new(slot))).await;
        self.pump().await;
    }

    pub async fn standstill(&mut self) -> Call<()> {
        let r = AssertUnwindSafe(self.pool.recover_from_standstill()).catch_unwind().await;
        let out = match r {
            Ok(()) => Call::Done(()),
            Err(_) => Call::Panicked(take_panics().join(" | ")),
        };
        self.pump().await;
        out
    }

    /// Lets virtual time pass (timers of the Votor fire at their exact deadlines).
    pub async fn sleep(&mut self, ms: u64) {
        tokio::time::sleep(std::time::Duration::from_millis(ms)).await;
        self.pump().await;
    }

    pub fn take_broadcasts(&self) -> Vec<ConsensusMessage> {
        self.a2a.take()
    }
}
