//! Slice / shred fixtures: index constructors through the public decoders, a wire-level view of
//! a shred (parse / rebuild) so that every field can be mutated without repository hooks.

use alpenglow::BlockId;
use alpenglow::shredder::{Shred, ShredIndex};
use alpenglow::types::{Slice, SliceIndex, Slot};
use serde::{Deserialize, Serialize};

use super::block_hash;

pub fn slice_index(i: usize) -> SliceIndex {
    wincode::deserialize::<SliceIndex>(&(i as u64).to_le_bytes()).expect("slice index < 1024")
}

pub fn slice_index_inner(i: SliceIndex) -> usize {
    let b = wincode::serialize(&i).expect("serialize");
    u64::from_le_bytes(b[..8].try_into().unwrap()) as usize
}

pub fn shred_index(i: usize) -> ShredIndex {
    ShredIndex::new(i).expect("shred index < 64")
}

/// Deterministic pseudo-random bytes.
pub fn prng_bytes(seed: u64, len: usize) -> Vec<u8> {
    let mut x = seed ^ 0x9E37_79B9_7F4A_7C15;
    let mut out = Vec::with_capacity(len + 8);
    while out.len() < len {
        x ^= x << 13;
        x ^= x >> 7;
        x ^= x << 17;
        out.extend_from_slice(&x.to_le_bytes());
    }
    out.truncate(len);
    out
}

pub fn make_slice(slot: u64, index: usize, is_last: bool, parent: Option<(u64, u64)>, data: Vec<u8>) -> Slice {
    Slice {
        slot: Slot::new(slot),
        slice_index: slice_index(index),
        is_last,
        parent: parent.map(|(s, t)| -> BlockId { super::pool_driver::bid(s, t) }),
        data,
    }
}

/// Length of the slice payload on the erasure-coding input: parent encoding + 8 + data.
pub fn payload_len(has_parent: bool, data_len: usize) -> usize {
    (if has_parent { 1 + 8 + 32 } else { 1 }) + 8 + data_len
}

/// Wire-level view of a shred.
#[derive(Clone, Debug, PartialEq, Eq, Serialize, Deserialize)]
pub struct ShredParts {
    pub coding: bool,
    pub slot: u64,
    pub slice_index: u64,
    pub is_last: u8,
    pub shred_index: u64,
    pub data: Vec<u8>,
    pub sig: Vec<u8>,
    pub proof: Vec<[u8; 32]>,
}

impl ShredParts {
    pub fn parse(bytes: &[u8]) -> Option<Self> {
        let mut p = 0usize;
        let take = |p: &mut usize, n: usize| -> Option<&[u8]> {
            let s = bytes.get(*p..*p + n)?;
            *p += n;
            Some(s)
        };
        let tag = u32::from_le_bytes(take(&mut p, 4)?.try_into().ok()?);
        let slot = u64::from_le_bytes(take(&mut p, 8)?.try_into().ok()?);
        let slice_index = u64::from_le_bytes(take(&mut p, 8)?.try_into().ok()?);
        let is_last = take(&mut p, 1)?[0];
        let shred_index = u64::from_le_bytes(take(&mut p, 8)?.try_into().ok()?);
        let dlen = u64::from_le_bytes(take(&mut p, 8)?.try_into().ok()?) as usize;
        let data = take(&mut p, dlen)?.to_vec();
        let sig = take(&mut p, 64)?.to_vec();
        let plen = u64::from_le_bytes(take(&mut p, 8)?.try_into().ok()?) as usize;
        let mut proof = Vec::new();
        for _ in 0..plen {
            proof.push(take(&mut p, 32)?.try_into().ok()?);
        }
        if p != bytes.len() || tag > 1 {
            return None;
        }
        Some(Self { coding: tag == 1, slot, slice_index, is_last, shred_index, data, sig, proof })
    }

    pub fn to_bytes(&self) -> Vec<u8> {
        let mut b = Vec::new();
        b.extend_from_slice(&(self.coding as u32).to_le_bytes());
        b.extend_from_slice(&self.slot.to_le_bytes());
        b.extend_from_slice(&self.slice_index.to_le_bytes());
        b.push(self.is_last);
        b.extend_from_slice(&self.shred_index.to_le_bytes());
        b.extend_from_slice(&(self.data.len() as u64).to_le_bytes());
        b.extend_from_slice(&self.data);
        b.extend_from_slice(&self.sig);
        b.extend_from_slice(&(self.proof.len() as u64).to_le_bytes());
        for h in &self.proof {
            b.extend_from_slice(h);
        }
        b
    }

    pub fn of(shred: &Shred) -> Self {
        let bytes = wincode::serialize(shred).expect("serialize shred");
        Self::parse(&bytes).expect("harness wire view of a shred matches the crate's encoding")
    }

    /// Decodes through the crate's network decoder (may legitimately fail for out-of-range fields).
    pub fn to_shred(&self) -> Result<Shred, String> {
        alpenglow::network::deserialize::<Shred>(&self.to_bytes()).map_err(|e| format!("{e:?}"))
    }
}

pub fn shred_bytes(shred: &Shred) -> Vec<u8> {
    wincode::serialize(shred).expect("serialize shred")
}

#[allow(dead_code)]
pub fn some_parent() -> Option<(u64, u64)> {
    let _ = block_hash(1);
    Some((0, 0))
}
