//! Shared fixtures: deterministic keys, epochs, hashes, a small async executor.

pub mod blocks;
pub mod epoch;
pub mod net;
pub mod nsim;
pub mod votes;
pub mod pool_driver;
pub mod pool_model;
pub mod pvsim;
pub mod shreds;
pub mod torsion;
pub mod world;

use std::sync::OnceLock;

use alpenglow::crypto::merkle::BlockHash;
use alpenglow::crypto::{Hash, aggsig, signature};
use rand::SeedableRng;
use rand::rngs::StdRng;

pub const MAX_KEYS: usize = 64;

pub struct Keys {
    pub sig: Vec<signature::SecretKey>,
    pub vote: Vec<aggsig::SecretKey>,
}

static KEYS: OnceLock<Keys> = OnceLock::new();

/// Deterministic key material for validators `0..MAX_KEYS` (same in every process).
pub fn keys() -> &'static Keys {
    KEYS.get_or_init(|| {
        let mut rng = StdRng::seed_from_u64(0xA1FE_6107);
        let mut sig = Vec::new();
        let mut vote = Vec::new();
        for _ in 0..MAX_KEYS {
            sig.push(signature::SecretKey::new(&mut rng));
            vote.push(aggsig::SecretKey::new(&mut rng));
        }
        Keys { sig, vote }
    })
}

/// Builds a `Hash` from raw bytes through the public wire decoder.
pub fn hash_from_bytes(bytes: [u8; 32]) -> Hash {
    wincode::deserialize::<Hash>(&bytes).expect("32 bytes decode to a hash")
}

/// A block hash derived from a small integer tag (distinct tags give distinct hashes).
pub fn block_hash(tag: u64) -> BlockHash {
    let h = alpenglow::crypto::hash(&[b"verif-block".as_slice(), &tag.to_le_bytes()].concat());
    h.into()
}

pub fn hex(bytes: &[u8]) -> String {
    bytes.iter().map(|b| format!("{b:02x}")).collect()
}

/// Runs a future to completion on a fresh current-thread runtime (no timers needed).
pub fn block_on<F: std::future::Future>(f: F) -> F::Output {
    thread_local! {
        static RT: tokio::runtime::Runtime = tokio::runtime::Builder::new_current_thread()
            .enable_time()
            .build()
            .expect("runtime");
    }
    RT.with(|rt| rt.block_on(f))
}
