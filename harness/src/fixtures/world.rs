//! Consistent worlds: histories the protocol can produce with < 20 % Byzantine stake, built
//! constructively, from which certificates / votes / block links are delivered to a pool in a
//! generated order. Used by C07, C08 and C18.

use std::collections::{BTreeMap, BTreeSet};

use proptest::prelude::*;
use serde::{Deserialize, Serialize};

use super::votes::{CKind, CertSpec, VKind, VoteSpec};
use crate::engine::pick_idx;

pub const SLOTS_PER_WINDOW: u64 = 4;

#[derive(Clone, Copy, Debug, PartialEq, Eq, Serialize, Deserialize)]
pub enum Fin {
    No,
    Fast,
    Slow,
    Both,
}

#[derive(Clone, Debug, Serialize, Deserialize)]
pub struct ExtraSpec {
    /// chooses a slot without chain block
    pub slot: u16,
    /// chooses the parent among earlier chain blocks / genesis
    pub parent: u16,
    /// whether this block carries a notarisation certificate (at most one per slot is kept)
    pub notar: bool,
}

/// A block nobody certifies: registered with the pool (a second block of an equivocating leader,
/// a block obtained through repair) in any slot - also one that holds a finalised chain block.
#[derive(Clone, Debug, Default, Serialize, Deserialize)]
pub struct GhostSpec {
    pub slot: u16,
    /// chooses the parent among all earlier blocks of the world / genesis / an unknown block
    pub parent: u16,
}

#[derive(Clone, Debug, Serialize, Deserialize)]
pub enum WOp {
    /// deliver an item as a received certificate
    Cert(u16),
    /// deliver one constituent vote of an item
    Vote(u16, u16),
    /// register a block with its parent
    Link(u16),
    /// register the (single) waiter for a window
    Wait(u16),
    /// trigger standstill recovery (C18)
    Standstill,
    /// (hand-written cases only) deliver the certificate of the given kind for the given slot
    CertFor(u64, CKind),
    /// (hand-written cases only) register the first block of the given slot
    LinkFor(u64),
}

#[derive(Clone, Debug, Serialize, Deserialize)]
pub struct WorldCase {
    pub stakes: Vec<u64>,
    pub own: u16,
    /// chain blocks per window (window 0 has at most 3 usable slots)
    pub chain_len: Vec<u8>,
    /// finalisation kind per chain block (cycled)
    pub fin: Vec<Fin>,
    pub extras: Vec<ExtraSpec>,
    #[serde(default)]
    pub ghosts: Vec<GhostSpec>,
    pub seed: u32,
    /// how far (in items) an op may stray from the in-order position; large = random order
    pub spread: u16,
    pub ops: Vec<WOp>,
}

#[derive(Clone, Debug, PartialEq, Eq)]
pub struct WBlock {
    pub slot: u64,
    pub tag: u64,
    pub parent: (u64, u64),
    pub chain: bool,
}

#[derive(Clone, Debug)]
pub struct Item {
    pub kind: CKind,
    pub slot: u64,
    pub tag: u64,
    pub primary: Vec<usize>,
    pub fallback: Vec<usize>,
}

impl Item {
    pub fn cert_spec(&self) -> CertSpec {
        CertSpec { kind: self.kind, slot: self.slot, block: self.tag, primary: self.primary.clone(), fallback: self.fallback.clone() }
    }
    /// The `pos`-th constituent vote.
    pub fn vote(&self, pos: usize) -> Option<VoteSpec> {
        let (pk, fk) = match self.kind {
            CKind::Notar | CKind::FastFinal => (VKind::Notar, VKind::Notar),
            CKind::NotarFallback => (VKind::Notar, VKind::NotarFallback),
            CKind::Skip => (VKind::Skip, VKind::SkipFallback),
            CKind::Final => (VKind::Final, VKind::Final),
        };
        let total = self.primary.len() + self.fallback.len();
        if total == 0 {
            return None;
        }
        let pos = pos % total;
        let (kind, signer) = if pos < self.primary.len() { (pk, self.primary[pos]) } else { (fk, self.fallback[pos - self.primary.len()]) };
        Some(VoteSpec { kind, slot: self.slot, block: self.tag, signer }.norm())
    }
}

pub struct World {
    pub last_slot: u64,
    pub blocks: Vec<WBlock>,
    pub items: Vec<Item>,
    pub n: usize,
}

fn splitmix(x: &mut u64) -> u64 {
    *x = x.wrapping_add(0x9E37_79B9_7F4A_7C15);
    let mut z = *x;
    z = (z ^ (z >> 30)).wrapping_mul(0xBF58_476D_1CE4_E5B9);
    z = (z ^ (z >> 27)).wrapping_mul(0x94D0_49BB_1331_11EB);
    z ^ (z >> 31)
}

/// A signer set whose stake is >= `lo_fifths`/5 and (if `hi_fifths` is given) < `hi_fifths`/5 of
/// the total, drawn as a prefix of a seeded permutation plus up to two extra members.
fn signer_set(stakes: &[u64], rng: &mut u64, lo_fifths: u128, hi_fifths: Option<u128>) -> Option<Vec<usize>> {
    let n = stakes.len();
    let total: u128 = stakes.iter().map(|s| *s as u128).sum();
    let mut perm: Vec<usize> = (0..n).collect();
    for i in (1..n).rev() {
        let j = (splitmix(rng) % (i as u64 + 1)) as usize;
        perm.swap(i, j);
    }
    let mut set = Vec::new();
    let mut acc: u128 = 0;
    let mut extra = splitmix(rng) % 3;
    for v in perm {
        let s = stakes[v] as u128;
        let reached = acc * 5 >= total * lo_fifths;
        if reached && extra == 0 {
            break;
        }
        if let Some(hi) = hi_fifths
            && (acc + s) * 5 >= total * hi
        {
            continue;
        }
        if reached {
            extra -= 1;
        }
        set.push(v);
        acc += s;
    }
    (acc * 5 >= total * lo_fifths).then_some(set)
}

impl World {
    pub fn build(case: &WorldCase) -> World {
        let stakes = &case.stakes;
        let n = stakes.len();
        let windows = case.chain_len.len() as u64;
        let last_slot = windows * SLOTS_PER_WINDOW - 1;
        let mut rng = case.seed as u64 ^ 0xC0FF_EE00;
        let mut blocks: Vec<WBlock> = Vec::new();
        let mut chain_at: BTreeMap<u64, u64> = BTreeMap::new();
        let mut last_chain: (u64, u64) = (0, 0);
        for (w, len) in case.chain_len.iter().enumerate() {
            let first = w as u64 * SLOTS_PER_WINDOW;
            let (start, max_len) = if w == 0 { (1, 3) } else { (first, 4) };
            let len = (*len as u64).min(max_len);
            for k in 0..len {
                let slot = start + k;
                let tag = 100 + slot;
                blocks.push(WBlock { slot, tag, parent: last_chain, chain: true });
                chain_at.insert(slot, tag);
                last_chain = (slot, tag);
            }
        }
        // extras live in slots without a chain block
        let free: Vec<u64> = (1..=last_slot).filter(|s| !chain_at.contains_key(s)).collect();
        let mut notar_extra_slots: BTreeSet<u64> = BTreeSet::new();
        let mut extra_notar: Vec<bool> = Vec::new();
        for (i, e) in case.extras.iter().enumerate() {
            if free.is_empty() {
                break;
            }
            let slot = free[pick_idx(e.slot, free.len())];
            let earlier: Vec<(u64, u64)> =
                std::iter::once((0, 0)).chain(blocks.iter().filter(|b| b.chain && b.slot < slot).map(|b| (b.slot, b.tag))).collect();
            let parent = earlier[pick_idx(e.parent, earlier.len())];
            let notar = e.notar && notar_extra_slots.insert(slot);
            blocks.push(WBlock { slot, tag: 200 + i as u64, parent, chain: false });
            extra_notar.push(notar);
        }
        // items
        let mut items = Vec::new();
        let mut chain_i = 0usize;
        let mut extra_i = 0usize;
        for b in &blocks {
            if b.chain {
                let fin = if case.fin.is_empty() { Fin::No } else { case.fin[chain_i % case.fin.len()] };
                chain_i += 1;
                if let Some(s) = signer_set(stakes, &mut rng, 3, None) {
                    items.push(Item { kind: CKind::Notar, slot: b.slot, tag: b.tag, primary: s, fallback: vec![] });
                }
                if splitmix(&mut rng) % 3 == 0
                    && let Some(s) = signer_set(stakes, &mut rng, 3, None)
                {
                    let cut = s.len() / 2;
                    items.push(Item { kind: CKind::NotarFallback, slot: b.slot, tag: b.tag, primary: s[..cut].to_vec(), fallback: s[cut..].to_vec() });
                }
                if matches!(fin, Fin::Fast | Fin::Both)
                    && let Some(s) = signer_set(stakes, &mut rng, 4, None)
                {
                    items.push(Item { kind: CKind::FastFinal, slot: b.slot, tag: b.tag, primary: s, fallback: vec![] });
                }
                if matches!(fin, Fin::Slow | Fin::Both)
                    && let Some(s) = signer_set(stakes, &mut rng, 3, None)
                {
                    items.push(Item { kind: CKind::Final, slot: b.slot, tag: 0, primary: s, fallback: vec![] });
                }
            } else {
                let notar = extra_notar[extra_i];
                extra_i += 1;
                if notar {
                    // >= 60 % but < 80 %: an off-chain block must never become fast-finalised
                    if let Some(s) = signer_set(stakes, &mut rng, 3, Some(4)) {
                        items.push(Item { kind: CKind::Notar, slot: b.slot, tag: b.tag, primary: s, fallback: vec![] });
                    }
                } else if let Some(s) = signer_set(stakes, &mut rng, 3, None) {
                    // notar-fallback certificate with fewer than 60 % notar voters
                    let total: u128 = stakes.iter().map(|x| *x as u128).sum();
                    let mut primary = Vec::new();
                    let mut acc = 0u128;
                    let mut fallback = Vec::new();
                    for v in s {
                        if (acc + stakes[v] as u128) * 5 < total * 3 && splitmix(&mut rng) % 2 == 0 {
                            acc += stakes[v] as u128;
                            primary.push(v);
                        } else {
                            fallback.push(v);
                        }
                    }
                    items.push(Item { kind: CKind::NotarFallback, slot: b.slot, tag: b.tag, primary, fallback });
                }
            }
        }
        for slot in free {
            if let Some(s) = signer_set(stakes, &mut rng, 3, None) {
                let mut primary = Vec::new();
                let mut fallback = Vec::new();
                for v in s {
                    if splitmix(&mut rng) % 3 == 0 { fallback.push(v) } else { primary.push(v) }
                }
                items.push(Item { kind: CKind::Skip, slot, tag: 0, primary, fallback });
            }
        }
        // ghosts: uncertified blocks, possibly in slots that hold a (finalised) chain block
        for (i, g) in case.ghosts.iter().enumerate() {
            let slot = 1 + pick_idx(g.slot, last_slot as usize) as u64;
            let mut earlier: Vec<(u64, u64)> = std::iter::once((0, 0)).chain(blocks.iter().filter(|b| b.slot < slot).map(|b| (b.slot, b.tag))).collect();
            if slot > 1 {
                // a parent the node never hears about otherwise
                earlier.push((slot - 1, 390 + i as u64));
            }
            let parent = earlier[pick_idx(g.parent, earlier.len())];
            blocks.push(WBlock { slot, tag: 300 + i as u64, parent, chain: false });
        }
        items.sort_by_key(|i| (i.slot, i.kind));
        blocks.sort_by_key(|b| (b.slot, b.tag));
        World { last_slot, blocks, items, n }
    }

    pub fn block(&self, slot: u64, tag: u64) -> Option<&WBlock> {
        self.blocks.iter().find(|b| b.slot == slot && b.tag == tag)
    }
}

/// Maps op position + raw value to an index that progresses through a slot-sorted list.
pub fn progressive_idx(op_i: usize, n_ops: usize, raw: u16, len: usize, spread: u16) -> usize {
    if len == 0 {
        return 0;
    }
    let base = (op_i * len / n_ops.max(1)) as i64;
    let off = (raw as i64 - 32768) * (spread as i64) / 32768;
    (base + off).clamp(0, len as i64 - 1) as usize
}

pub fn world_strategy(max_windows: usize, standstill: bool) -> BoxedStrategy<WorldCase> {
    let stakes = prop_oneof![
        3 => (4usize..=7, 1u64..=3).prop_map(|(n, s)| vec![s; n]),
        2 => prop::collection::vec(1u64..=5, 4..=7),
        1 => prop::collection::vec(prop_oneof![1u64..=2, 8u64..=12], 5..=7),
    ];
    let fin = prop_oneof![3 => Just(Fin::No), 3 => Just(Fin::Fast), 2 => Just(Fin::Slow), 1 => Just(Fin::Both)];
    let extra = (any::<u16>(), any::<u16>(), prop::bool::weighted(0.65)).prop_map(|(slot, parent, notar)| ExtraSpec { slot, parent, notar });
    (
        stakes,
        any::<u16>(),
        prop::collection::vec(prop_oneof![2 => Just(0u8), 1 => Just(1u8), 2 => Just(2u8), 1 => Just(3u8), 4 => Just(4u8)], 2..=max_windows),
        prop::collection::vec(fin, 1..=8),
        prop::collection::vec(extra, 0..=5),
        prop::collection::vec((any::<u16>(), any::<u16>()).prop_map(|(slot, parent)| GhostSpec { slot, parent }), 0..=3),
        any::<u32>(),
        prop_oneof![2 => Just(2u16), 2 => Just(8u16), 2 => Just(30u16), 1 => Just(1000u16)],
    )
        .prop_flat_map(move |(stakes, own, chain_len, fin, extras, ghosts, seed, spread)| {
            let slots = chain_len.len() * 4;
            let n = stakes.len();
            let max_ops = slots * (3 + n);
            let op = {
                let mut v: Vec<(u32, BoxedStrategy<WOp>)> = vec![
                    (5, any::<u16>().prop_map(WOp::Cert).boxed()),
                    (12, (any::<u16>(), any::<u16>()).prop_map(|(a, b)| WOp::Vote(a, b)).boxed()),
                    (5, any::<u16>().prop_map(WOp::Link).boxed()),
                    (1, any::<u16>().prop_map(WOp::Wait).boxed()),
                ];
                if standstill {
                    v.push((1, Just(WOp::Standstill).boxed()));
                }
                proptest::strategy::Union::new_weighted(v)
            };
            (Just(stakes), Just(own), Just(chain_len), Just(fin), Just(extras), Just(ghosts), Just(seed), Just(spread), prop::collection::vec(op, 0..=max_ops))
        })
        .prop_map(|(stakes, own, chain_len, fin, extras, ghosts, seed, spread, ops)| WorldCase { stakes, own, chain_len, fin, extras, ghosts, seed, spread, ops })
        .boxed()
}
