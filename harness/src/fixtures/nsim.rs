//! N-sim: full `Alpenglow` nodes (`Alpenglow::new` + `run`) over a harness-owned byte-level
//! network on a paused single-thread runtime. Faulty validators are not instantiated; the harness
//! can inject arbitrary bytes on every interface of every node.

use std::collections::HashMap;
use std::marker::PhantomData;
use std::net::SocketAddr;
use std::sync::{Arc, Mutex};
use std::time::Duration;

use alpenglow::all2all::TrivialAll2All;
use alpenglow::consensus::{Alpenglow, ConsensusMessage, EpochInfo, SharedPool, ValidatorEpochInfo};
use alpenglow::disseminator::{Rotor, Turbine};
use alpenglow::network::{Network, localhost_ip_sockaddr};
use alpenglow::repair::{RepairRequest, RepairResponse};
use alpenglow::shredder::Shred;
use alpenglow::{Transaction, ValidatorIndex, ValidatorInfo};
use tokio::sync::mpsc::{UnboundedReceiver, UnboundedSender, unbounded_channel};
use tokio_util::sync::CancellationToken;

use super::keys;

#[derive(Clone, Copy, Debug, PartialEq, Eq, Hash)]
pub enum Iface {
    All2All,
    Disseminator,
    RepairRequester,
    RepairResponder,
    Tx,
}

pub fn addr(iface: Iface, v: usize) -> SocketAddr {
    let base = match iface {
        Iface::All2All => 1000,
        Iface::Disseminator => 2000,
        Iface::RepairRequester => 3000,
        Iface::RepairResponder => 4000,
        Iface::Tx => 5000,
    };
    localhost_ip_sockaddr(base + v as u16)
}

pub fn decode_addr(a: SocketAddr) -> Option<(Iface, usize)> {
    let p = a.port() as usize;
    let (iface, base) = match p / 1000 {
        1 => (Iface::All2All, 1000),
        2 => (Iface::Disseminator, 2000),
        3 => (Iface::RepairRequester, 3000),
        4 => (Iface::RepairResponder, 4000),
        5 => (Iface::Tx, 5000),
        _ => return None,
    };
    Some((iface, p - base))
}

/// Delivery policy: returns the delay in ms, or None to drop.
pub type Policy = Box<dyn FnMut(usize, usize, Iface, u64) -> Option<u64> + Send>;

pub struct LogEntry {
    pub t_ms: u64,
    pub from: usize,
    pub to: usize,
    pub iface: Iface,
    pub bytes: Arc<Vec<u8>>,
}

struct SwitchInner {
    inboxes: HashMap<SocketAddr, UnboundedSender<Arc<Vec<u8>>>>,
    policy: Policy,
    counter: u64,
    pub log_consensus: Vec<LogEntry>,
    pub sent: u64,
    pub shreds_sent: u64,
    start: tokio::time::Instant,
    record_shreds: bool,
    pub shred_log: Vec<(usize, usize, Arc<Vec<u8>>)>,
    /// number of messages routed per (interface, destination validator)
    pub per_dest: HashMap<(Iface, usize), u64>,
    /// repair traffic beyond this many messages is dropped and flagged (message-storm guard)
    repair_cap: u64,
    repair_msgs: u64,
    pub repair_storm: bool,
    /// rolling hash over (time, sender, receiver, interface, content) of everything routed
    trace: u64,
}

pub struct Switch {
    inner: Mutex<SwitchInner>,
    /// number of validators of the epoch (set by `start_node`), for deterministic repair peers
    validators: std::sync::atomic::AtomicUsize,
}

impl Switch {
    pub fn new(policy: Policy) -> Arc<Self> {
        Arc::new(Self {
            inner: Mutex::new(SwitchInner {
                inboxes: HashMap::new(),
                policy,
                counter: 0,
                log_consensus: Vec::new(),
                sent: 0,
                shreds_sent: 0,
                start: tokio::time::Instant::now(),
                record_shreds: false,
                shred_log: Vec::new(),
                per_dest: HashMap::new(),
                repair_cap: 60_000,
                repair_msgs: 0,
                repair_storm: false,
                trace: 0,
            }),
            validators: std::sync::atomic::AtomicUsize::new(0),
        })
    }

    /// The node picks the peers of a repair request with the thread RNG and sends to them in
    /// `HashSet` order, which would make runs irreproducible. The harness network keeps the
    /// *number* of peers the node intended (up to three distinct ones) but chooses them itself,
    /// as a pure function of the sender, the request bytes and a per-switch counter.
    fn repair_peers(&self, me: usize, bytes: &[u8], wanted: usize) -> Vec<SocketAddr> {
        let n = self.validators.load(std::sync::atomic::Ordering::Relaxed);
        if n < 2 {
            return Vec::new();
        }
        let c = {
            let mut g = self.inner.lock().unwrap();
            g.counter += 1;
            g.counter
        };
        let mut h = 0xcbf2_9ce4_8422_2325u64 ^ (me as u64) ^ (c << 20);
        for b in bytes {
            h = (h ^ *b as u64).wrapping_mul(0x100_0000_01b3);
        }
        let mut out: Vec<usize> = Vec::new();
        let mut x = h | 1;
        while out.len() < wanted.min(n - 1) {
            x ^= x << 13;
            x ^= x >> 7;
            x ^= x << 17;
            let v = (x % n as u64) as usize;
            if v != me && !out.contains(&v) {
                out.push(v);
            }
        }
        out.into_iter().map(|v| addr(Iface::RepairResponder, v)).collect()
    }

    pub fn set_policy(&self, policy: Policy) {
        self.inner.lock().unwrap().policy = policy;
    }

    pub fn record_shreds(&self, on: bool) {
        self.inner.lock().unwrap().record_shreds = on;
    }

    pub fn now_ms(&self) -> u64 {
        self.inner.lock().unwrap().start.elapsed().as_millis() as u64
    }

    fn register(&self, a: SocketAddr) -> UnboundedReceiver<Arc<Vec<u8>>> {
        let (tx, rx) = unbounded_channel();
        self.inner.lock().unwrap().inboxes.insert(a, tx);
        rx
    }

    /// Routes bytes from validator `from` to the given address under the current policy.
    pub fn route(&self, from: usize, to: SocketAddr, bytes: Arc<Vec<u8>>) {
        let Some((iface, to_v)) = decode_addr(to) else { return };
        let mut g = self.inner.lock().unwrap();
        g.counter += 1;
        g.sent += 1;
        let c = g.counter;
        *g.per_dest.entry((iface, to_v)).or_default() += 1;
        if matches!(iface, Iface::RepairRequester | Iface::RepairResponder) {
            g.repair_msgs += 1;
            if g.repair_msgs > g.repair_cap {
                g.repair_storm = true;
                return;
            }
        }
        let t_ms = g.start.elapsed().as_millis() as u64;
        {
            let mut h = g.trace ^ t_ms.wrapping_mul(0x9E37_79B9_7F4A_7C15) ^ ((from as u64) << 8) ^ ((to_v as u64) << 20) ^ ((iface as u64) << 32) ^ ((bytes.len() as u64) << 40);
            let sample: &[u8] = if iface == Iface::Disseminator { &bytes[..bytes.len().min(96)] } else { &bytes[..] };
            for b in sample {
                h = (h ^ *b as u64).wrapping_mul(0x100_0000_01b3);
            }
            g.trace = h;
        }
        if iface == Iface::All2All {
            g.log_consensus.push(LogEntry { t_ms, from, to: to_v, iface, bytes: bytes.clone() });
        }
        if iface == Iface::Disseminator {
            g.shreds_sent += 1;
            if g.record_shreds {
                g.shred_log.push((from, to_v, bytes.clone()));
            }
        }
        let delay = (g.policy)(from, to_v, iface, c);
        let Some(tx) = g.inboxes.get(&to).cloned() else { return };
        drop(g);
        if let Some(d) = delay {
            tokio::spawn(async move {
                tokio::time::sleep(Duration::from_millis(d)).await;
                let _ = tx.send(bytes);
            });
        }
    }

    /// Places raw bytes directly into an inbox (harness / adversary injection), no delay.
    pub fn inject(&self, to: SocketAddr, bytes: Vec<u8>) {
        let g = self.inner.lock().unwrap();
        if let Some(tx) = g.inboxes.get(&to) {
            let _ = tx.send(Arc::new(bytes));
        }
    }

    /// Hash of the whole routed traffic so far: two runs of the same case must agree on it.
    pub fn trace_hash(&self) -> u64 {
        self.inner.lock().unwrap().trace
    }

    pub fn take_consensus_log(&self) -> Vec<LogEntry> {
        std::mem::take(&mut self.inner.lock().unwrap().log_consensus)
    }

    pub fn take_shred_log(&self) -> Vec<(usize, usize, Arc<Vec<u8>>)> {
        std::mem::take(&mut self.inner.lock().unwrap().shred_log)
    }

    pub fn repair_storm(&self) -> bool {
        self.inner.lock().unwrap().repair_storm
    }

    pub fn repair_messages(&self) -> u64 {
        self.inner.lock().unwrap().repair_msgs
    }

    pub fn routed_to(&self, iface: Iface, v: usize) -> u64 {
        self.inner.lock().unwrap().per_dest.get(&(iface, v)).copied().unwrap_or(0)
    }

    pub fn counters(&self) -> (u64, u64) {
        let g = self.inner.lock().unwrap();
        (g.sent, g.shreds_sent)
    }
}

/// One endpoint (validator, interface) of the harness network.
pub struct SimNet<S, R> {
    switch: Arc<Switch>,
    me: usize,
    inbox: tokio::sync::Mutex<UnboundedReceiver<Arc<Vec<u8>>>>,
    _p: PhantomData<fn(S) -> R>,
}

impl<S, R> SimNet<S, R> {
    pub fn new(switch: &Arc<Switch>, iface: Iface, me: usize) -> Self {
        let rx = switch.register(addr(iface, me));
        Self { switch: switch.clone(), me, inbox: tokio::sync::Mutex::new(rx), _p: PhantomData }
    }
}

impl<S, R> Network for SimNet<S, R>
where
    S: wincode::SchemaWrite<wincode::config::DefaultConfig, Src = S> + Send + Sync,
    R: for<'de> wincode::SchemaRead<'de, alpenglow::network::NetworkMessageConfig, Dst = R> + Send + Sync,
{
    type Send = S;
    type Recv = R;

    async fn send(&self, m: &S, a: SocketAddr) -> std::io::Result<()> {
        let bytes = Arc::new(wincode::serialize(m).expect("encode"));
        self.switch.route(self.me, a, bytes);
        Ok(())
    }

    async fn send_to_many(&self, m: &S, addrs: impl IntoIterator<Item = SocketAddr> + Send) -> std::io::Result<()> {
        let bytes = Arc::new(wincode::serialize(m).expect("encode"));
        let mut addrs: Vec<SocketAddr> = addrs.into_iter().collect();
        addrs.sort();
        if let Some((Iface::RepairResponder, _)) = addrs.first().and_then(|a| decode_addr(*a)) {
            addrs = self.switch.repair_peers(self.me, &bytes, 3);
        }
        for a in addrs {
            self.switch.route(self.me, a, bytes.clone());
        }
        Ok(())
    }

    async fn receive(&self) -> std::io::Result<R> {
        let mut rx = self.inbox.lock().await;
        loop {
            match rx.recv().await {
                None => std::future::pending::<()>().await,
                Some(bytes) => {
                    // like the UDP transport: undecodable datagrams are dropped
                    if let Ok(m) = alpenglow::network::deserialize::<R>(&bytes) {
                        return Ok(m);
                    }
                }
            }
        }
    }
}

pub fn validator_infos(stakes: &[u64]) -> Vec<ValidatorInfo> {
    let k = keys();
    stakes
        .iter()
        .enumerate()
        .map(|(i, s)| ValidatorInfo {
            id: ValidatorIndex::new(i as u64),
            stake: alpenglow::Stake::new(*s),
            pubkey: k.sig[i].to_pk(),
            voting_pubkey: k.vote[i].to_pk(),
            all2all_address: addr(Iface::All2All, i),
            disseminator_address: addr(Iface::Disseminator, i),
            repair_requester_address: addr(Iface::RepairRequester, i),
            repair_responder_address: addr(Iface::RepairResponder, i),
        })
        .collect()
}

pub struct SimNode {
    pub id: usize,
    pub pool: SharedPool,
    pub cancel: CancellationToken,
    pub task: tokio::task::JoinHandle<anyhow::Result<()>>,
}

#[derive(Clone, Copy, Debug, PartialEq, Eq)]
pub enum Diss {
    Rotor,
    Turbine(usize),
}

/// Starts a full node for validator `id` (must run inside the runtime).
pub fn start_node(switch: &Arc<Switch>, stakes: &[u64], id: usize, diss: Diss) -> SimNode {
    switch.validators.store(stakes.len(), std::sync::atomic::Ordering::Relaxed);
    let infos = validator_infos(stakes);
    let epoch = EpochInfo::new(infos.clone());
    let ve = Arc::new(ValidatorEpochInfo::new(ValidatorIndex::new(id as u64), epoch));
    let a2a_net: SimNet<ConsensusMessage, ConsensusMessage> = SimNet::new(switch, Iface::All2All, id);
    let all2all = TrivialAll2All::new(infos, a2a_net);
    let dnet: SimNet<Shred, Shred> = SimNet::new(switch, Iface::Disseminator, id);
    let rq: SimNet<RepairRequest, RepairResponse> = SimNet::new(switch, Iface::RepairRequester, id);
    let rp: SimNet<RepairResponse, RepairRequest> = SimNet::new(switch, Iface::RepairResponder, id);
    let tx: SimNet<Transaction, Transaction> = SimNet::new(switch, Iface::Tx, id);
    let sk = keys().sig[id].clone();
    let vsk = keys().vote[id].clone();
    match diss {
        Diss::Rotor => {
            let d = Rotor::new(dnet, ve.clone());
            let node = Alpenglow::new(sk, vsk, all2all, d, rq, rp, ve, tx);
            let pool = node.get_pool();
            let cancel = node.get_cancel_token();
            let task = tokio::spawn(node.run());
            SimNode { id, pool, cancel, task }
        }
        Diss::Turbine(f) => {
            let d = Turbine::new(dnet, ve.clone()).with_fanout(f);
            let node = Alpenglow::new(sk, vsk, all2all, d, rq, rp, ve, tx);
            let pool = node.get_pool();
            let cancel = node.get_cancel_token();
            let task = tokio::spawn(node.run());
            SimNode { id, pool, cancel, task }
        }
    }
}

impl SimNode {
    pub async fn finalized_slot(&self) -> u64 {
        self.pool.read().await.finalized_slot().inner()
    }
}

/// Lets `ms` of virtual time pass.
pub async fn advance(ms: u64) {
    tokio::time::sleep(Duration::from_millis(ms)).await;
}

/// Human-readable summary of the consensus traffic for slots `from..from+count` (who voted what,
/// which certificates were broadcast), for violation reports.
pub fn summarize_consensus(log: &[LogEntry], from: u64, count: u64) -> String {
    use std::collections::{BTreeMap, BTreeSet};
    use alpenglow::consensus::ConsensusMessage;
    let mut per: BTreeMap<u64, BTreeMap<String, BTreeSet<usize>>> = BTreeMap::new();
    for e in log {
        match alpenglow::network::deserialize::<ConsensusMessage>(&e.bytes) {
            Ok(ConsensusMessage::Vote(v)) => {
                let c = crate::fixtures::votes::classify_vote(&v);
                if c.slot >= from && c.slot < from + count {
                    per.entry(c.slot).or_default().entry(c.kind.short().to_string()).or_default().insert(c.signer);
                }
            }
            Ok(ConsensusMessage::Cert(c)) => {
                let s = c.slot().inner();
                if s >= from && s < from + count {
                    per.entry(s).or_default().entry(format!("cert:{:?}", crate::fixtures::votes::cert_kind(&c))).or_default().insert(e.from);
                }
            }
            Err(_) => {}
        }
    }
    format!("{per:?}")
}

/// `true` iff, among the validators other than `byz`, some voted to notarise a block in `slot`
/// and some voted to skip it, and no certificate for `slot` was ever broadcast.
pub fn slot_split(log: &[LogEntry], slot: u64, byz: usize) -> bool {
    use alpenglow::consensus::ConsensusMessage;
    let (mut notar, mut skip, mut cert) = (false, false, false);
    for e in log {
        match alpenglow::network::deserialize::<ConsensusMessage>(&e.bytes) {
            Ok(ConsensusMessage::Vote(v)) => {
                let c = crate::fixtures::votes::classify_vote(&v);
                if c.slot == slot && c.signer != byz {
                    match c.kind {
                        crate::fixtures::votes::VKind::Notar => notar = true,
                        crate::fixtures::votes::VKind::Skip => skip = true,
                        _ => {}
                    }
                }
            }
            Ok(ConsensusMessage::Cert(c)) => cert |= c.slot().inner() == slot,
            Err(_) => {}
        }
    }
    notar && skip && !cert
}
