//! Reference model of the pool's vote admission, stake counting, certificate existence and
//! direct finalisation, written from the property statements (C03, C04, C08) — not from the code.

use std::collections::{BTreeMap, BTreeSet};

use super::votes::{CKind, VKind, VoteSpec};

pub const SLOTS_PER_EPOCH: u64 = 18_000;

/// Outcome the statement prescribes for an offered vote.
#[derive(Clone, Debug, PartialEq, Eq)]
pub enum Expect {
    OutOfBounds,
    /// Slashable; any of the listed offence kinds is acceptable.
    Slashable(Vec<Offence>),
    Duplicate,
    Ok,
}

#[derive(Clone, Copy, Debug, PartialEq, Eq, PartialOrd, Ord)]
pub enum Offence {
    NotarDifferentHash,
    SkipAndNotarize,
    SkipAndFinalize,
    NotarFallbackAndFinalize,
}

#[derive(Clone, Debug, Default)]
pub struct ValidatorVotes {
    pub notar: Option<u64>,
    pub nf: BTreeSet<u64>,
    pub skip: bool,
    pub sf: bool,
    pub fin: bool,
}

#[derive(Clone, Debug, Default)]
pub struct SlotModel {
    pub votes: BTreeMap<usize, ValidatorVotes>,
    /// certificates the pool holds (created or received): kind -> set of block tags (0 for kinds
    /// without a block)
    pub certs: BTreeMap<CKind, BTreeSet<u64>>,
}

impl SlotModel {
    pub fn holds(&self, kind: CKind) -> bool {
        self.certs.get(&kind).is_some_and(|s| !s.is_empty())
    }
    pub fn holds_block(&self, kind: CKind, block: u64) -> bool {
        self.certs.get(&kind).is_some_and(|s| s.contains(&block))
    }
    pub fn voters(&self, pred: impl Fn(&ValidatorVotes) -> bool) -> BTreeSet<usize> {
        self.votes.iter().filter(|(_, v)| pred(v)).map(|(i, _)| *i).collect()
    }
    pub fn notar_voters(&self, block: u64) -> BTreeSet<usize> {
        self.voters(|v| v.notar == Some(block))
    }
    pub fn nf_voters(&self, block: u64) -> BTreeSet<usize> {
        self.voters(|v| v.nf.contains(&block))
    }
    pub fn skip_voters(&self) -> BTreeSet<usize> {
        self.voters(|v| v.skip)
    }
    pub fn sf_voters(&self) -> BTreeSet<usize> {
        self.voters(|v| v.sf)
    }
    pub fn final_voters(&self) -> BTreeSet<usize> {
        self.voters(|v| v.fin)
    }
    /// The block (if any) the slot is directly finalised with, by the statement of C08.
    pub fn finalized_block(&self) -> Option<u64> {
        if let Some(b) = self.certs.get(&CKind::FastFinal).and_then(|s| s.iter().next()) {
            return Some(*b);
        }
        if self.holds(CKind::Final) {
            return self.certs.get(&CKind::Notar).and_then(|s| s.iter().next()).copied();
        }
        None
    }
}

#[derive(Clone, Debug)]
pub struct PoolModel {
    pub stakes: Vec<u64>,
    pub slots: BTreeMap<u64, SlotModel>,
    pub highest_finalized: u64,
    /// decided prefix end when no block links are known (direct finalisation only)
    pub watermark: u64,
}

/// A certificate the model expects to come into existence in a call.
#[derive(Clone, Debug, PartialEq, Eq, PartialOrd, Ord)]
pub struct ExpectedCert {
    pub kind: CKind,
    pub slot: u64,
    pub block: u64,
    pub signers: BTreeSet<usize>,
}

impl PoolModel {
    pub fn new(stakes: &[u64]) -> Self {
        Self { stakes: stakes.to_vec(), slots: BTreeMap::new(), highest_finalized: 0, watermark: 0 }
    }

    pub fn total(&self) -> u128 {
        self.stakes.iter().map(|s| *s as u128).sum()
    }

    pub fn stake(&self, set: &BTreeSet<usize>) -> u128 {
        set.iter().map(|i| self.stakes[*i] as u128).sum()
    }

    pub fn meets(&self, set: &BTreeSet<usize>, fifths: u128) -> bool {
        self.stake(set) * 5 >= self.total() * fifths
    }

    pub fn slot(&self, slot: u64) -> Option<&SlotModel> {
        self.slots.get(&slot)
    }

    pub fn in_bounds(&self, slot: u64) -> bool {
        slot >= self.watermark && slot < self.highest_finalized + 2 * SLOTS_PER_EPOCH
    }

    /// The verdict the statement of C04 prescribes for `v` in the current state.
    pub fn predict(&self, v: &VoteSpec) -> Expect {
        if !self.in_bounds(v.slot) {
            return Expect::OutOfBounds;
        }
        let empty = ValidatorVotes::default();
        let st = self.slots.get(&v.slot).and_then(|s| s.votes.get(&v.signer)).unwrap_or(&empty);
        let mut off = Vec::new();
        let dup;
        match v.kind {
            VKind::Notar => {
                if st.skip {
                    off.push(Offence::SkipAndNotarize);
                }
                if st.notar.is_some_and(|b| b != v.block) {
                    off.push(Offence::NotarDifferentHash);
                }
                dup = st.notar == Some(v.block) || st.nf.contains(&v.block);
            }
            VKind::NotarFallback => {
                if st.fin {
                    off.push(Offence::NotarFallbackAndFinalize);
                }
                dup = st.nf.contains(&v.block) || st.notar == Some(v.block);
            }
            VKind::Skip => {
                if st.fin {
                    off.push(Offence::SkipAndFinalize);
                }
                if st.notar.is_some() {
                    off.push(Offence::SkipAndNotarize);
                }
                dup = st.skip || st.sf;
            }
            VKind::SkipFallback => {
                if st.fin {
                    off.push(Offence::SkipAndFinalize);
                }
                dup = st.sf || st.skip;
            }
            VKind::Final => {
                if st.skip || st.sf {
                    off.push(Offence::SkipAndFinalize);
                }
                if !st.nf.is_empty() {
                    off.push(Offence::NotarFallbackAndFinalize);
                }
                dup = st.fin;
            }
        }
        if !off.is_empty() {
            Expect::Slashable(off)
        } else if dup {
            Expect::Duplicate
        } else {
            Expect::Ok
        }
    }

    /// Records an accepted vote and returns the certificates that must come into existence in
    /// this very call (threshold reached by accepted votes and no certificate of that type held).
    pub fn apply_vote(&mut self, v: &VoteSpec) -> Vec<ExpectedCert> {
        let sm = self.slots.entry(v.slot).or_default();
        let st = sm.votes.entry(v.signer).or_default();
        match v.kind {
            VKind::Notar => st.notar = Some(v.block),
            VKind::NotarFallback => {
                st.nf.insert(v.block);
            }
            VKind::Skip => st.skip = true,
            VKind::SkipFallback => st.sf = true,
            VKind::Final => st.fin = true,
        }
        let mut expected = Vec::new();
        let sm = &self.slots[&v.slot];
        let mk = |kind: CKind, block: u64, signers: BTreeSet<usize>| ExpectedCert { kind, slot: v.slot, block, signers };
        match v.kind {
            VKind::Notar | VKind::NotarFallback => {
                let b = v.block;
                let both: BTreeSet<usize> = sm.notar_voters(b).union(&sm.nf_voters(b)).copied().collect();
                if self.meets(&both, 3) && !sm.holds_block(CKind::NotarFallback, b) {
                    expected.push(mk(CKind::NotarFallback, b, both));
                }
                if v.kind == VKind::Notar {
                    let n = sm.notar_voters(b);
                    if self.meets(&n, 3) && !sm.holds(CKind::Notar) {
                        expected.push(mk(CKind::Notar, b, n.clone()));
                    }
                    if self.meets(&n, 4) && !sm.holds(CKind::FastFinal) {
                        expected.push(mk(CKind::FastFinal, b, n));
                    }
                }
            }
            VKind::Skip | VKind::SkipFallback => {
                let both: BTreeSet<usize> = sm.skip_voters().union(&sm.sf_voters()).copied().collect();
                if self.meets(&both, 3) && !sm.holds(CKind::Skip) {
                    expected.push(mk(CKind::Skip, 0, both));
                }
            }
            VKind::Final => {
                let f = sm.final_voters();
                if self.meets(&f, 3) && !sm.holds(CKind::Final) {
                    expected.push(mk(CKind::Final, 0, f));
                }
            }
        }
        for e in &expected {
            self.hold_cert(e.kind, e.slot, e.block);
        }
        expected
    }

    /// Records that the pool now holds a certificate (created or received).
    pub fn hold_cert(&mut self, kind: CKind, slot: u64, block: u64) {
        let block = if kind.has_hash() { block } else { 0 };
        self.slots.entry(slot).or_default().certs.entry(kind).or_default().insert(block);
        self.refresh_finality();
    }

    /// Whether a received certificate of this kind is a duplicate by the pool's rules
    /// (one per slot and type; per block for notar-fallback).
    pub fn cert_is_duplicate(&self, kind: CKind, slot: u64, block: u64) -> bool {
        match self.slots.get(&slot) {
            None => false,
            Some(sm) => {
                if kind == CKind::NotarFallback {
                    sm.holds_block(kind, block)
                } else {
                    sm.holds(kind)
                }
            }
        }
    }

    fn refresh_finality(&mut self) {
        for (s, sm) in &self.slots {
            if sm.finalized_block().is_some() {
                self.highest_finalized = self.highest_finalized.max(*s);
            }
        }
        // decided prefix (no block links known: only direct finalisation decides a slot)
        let mut w = self.watermark;
        while self.slots.get(&(w + 1)).is_some_and(|sm| sm.finalized_block().is_some()) {
            w += 1;
        }
        self.watermark = w;
    }
}
