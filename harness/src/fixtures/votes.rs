//! Vote / certificate factory with per-thread memoisation of signatures and validation.

use std::cell::RefCell;
use std::collections::HashMap;

use alpenglow::consensus::{
    Cert, EpochInfo, FastFinalCert, FinalCert, FinalVote, NotarCert, NotarFallbackCert,
    NotarFallbackVote, NotarVote, SkipCert, SkipFallbackVote, SkipVote, ValidatedCert,
    ValidatedVote, Vote,
};
use alpenglow::crypto::merkle::BlockHash;
use alpenglow::types::Slot;
use alpenglow::{ValidatorIndex, ValidatorInfo};
use serde::{Deserialize, Serialize};

use super::{block_hash, keys};

/// The five vote kinds. `hash` is a small tag resolved through [`block_hash`].
#[derive(Clone, Copy, Debug, PartialEq, Eq, Hash, PartialOrd, Ord, Serialize, Deserialize)]
pub enum VKind {
    Notar,
    NotarFallback,
    Skip,
    SkipFallback,
    Final,
}

impl VKind {
    pub const ALL: [VKind; 5] = [VKind::Notar, VKind::NotarFallback, VKind::Skip, VKind::SkipFallback, VKind::Final];
    pub fn has_hash(self) -> bool {
        matches!(self, VKind::Notar | VKind::NotarFallback)
    }
    pub fn short(self) -> &'static str {
        match self {
            VKind::Notar => "N",
            VKind::NotarFallback => "NF",
            VKind::Skip => "S",
            VKind::SkipFallback => "SF",
            VKind::Final => "F",
        }
    }
}

/// Plain-data description of a vote.
#[derive(Clone, Copy, Debug, PartialEq, Eq, Hash, PartialOrd, Ord, Serialize, Deserialize)]
pub struct VoteSpec {
    pub kind: VKind,
    pub slot: u64,
    /// block tag (ignored for kinds without a hash)
    pub block: u64,
    pub signer: usize,
}

impl VoteSpec {
    pub fn norm(mut self) -> Self {
        if !self.kind.has_hash() {
            self.block = 0;
        }
        self
    }
    pub fn hash(&self) -> Option<BlockHash> {
        self.kind.has_hash().then(|| block_hash(self.block))
    }
}

thread_local! {
    static VOTES: RefCell<HashMap<VoteSpec, Vote>> = RefCell::new(HashMap::new());
}

/// Signs (memoised) the vote described by `spec` with the fixture key of `spec.signer`.
pub fn make_vote(spec: VoteSpec) -> Vote {
    let spec = spec.norm();
    VOTES.with(|c| {
        c.borrow_mut()
            .entry(spec)
            .or_insert_with(|| {
                let sk = &keys().vote[spec.signer];
                let slot = Slot::new(spec.slot);
                let id = ValidatorIndex::new(spec.signer as u64);
                match spec.kind {
                    VKind::Notar => Vote::new_notar(slot, block_hash(spec.block), sk, id),
                    VKind::NotarFallback => Vote::new_notar_fallback(slot, block_hash(spec.block), sk, id),
                    VKind::Skip => Vote::new_skip(slot, sk, id),
                    VKind::SkipFallback => Vote::new_skip_fallback(slot, sk, id),
                    VKind::Final => Vote::new_final(slot, sk, id),
                }
            })
            .clone()
    })
}

/// Signs and validates a vote against `epoch` (validation result is not memoised across epochs
/// because it depends only on the key, which is fixed per signer index; so it is memoised).
pub fn valid_vote(spec: VoteSpec, epoch: &EpochInfo) -> ValidatedVote {
    thread_local! {
        static VALID: RefCell<HashMap<VoteSpec, ValidatedVote>> = RefCell::new(HashMap::new());
    }
    let spec = spec.norm();
    VALID.with(|c| {
        c.borrow_mut()
            .entry(spec)
            .or_insert_with(|| {
                ValidatedVote::try_new(make_vote(spec), epoch).expect("fixture vote validates")
            })
            .clone()
    })
}

pub fn classify_vote(v: &Vote) -> VoteSpecLite {
    let (kind, hash) = match v {
        Vote::Notar(n) => (VKind::Notar, Some(n.block_hash().clone())),
        Vote::NotarFallback(n) => (VKind::NotarFallback, Some(n.block_hash().clone())),
        Vote::Skip(_) => (VKind::Skip, None),
        Vote::SkipFallback(_) => (VKind::SkipFallback, None),
        Vote::Final(_) => (VKind::Final, None),
    };
    VoteSpecLite { kind, slot: v.slot().inner(), hash, signer: v.signer().as_usize() }
}

/// Decoded view of a vote seen on the wire.
#[derive(Clone, Debug, PartialEq, Eq, PartialOrd, Ord)]
pub struct VoteSpecLite {
    pub kind: VKind,
    pub slot: u64,
    pub hash: Option<BlockHash>,
    pub signer: usize,
}

/// The five certificate kinds.
#[derive(Clone, Copy, Debug, PartialEq, Eq, Hash, PartialOrd, Ord, Serialize, Deserialize)]
pub enum CKind {
    Notar,
    NotarFallback,
    Skip,
    FastFinal,
    Final,
}

impl CKind {
    pub const ALL: [CKind; 5] = [CKind::Notar, CKind::NotarFallback, CKind::Skip, CKind::FastFinal, CKind::Final];
    pub fn has_hash(self) -> bool {
        matches!(self, CKind::Notar | CKind::NotarFallback | CKind::FastFinal)
    }
    /// threshold numerator over 5
    pub fn threshold_fifths(self) -> u128 {
        if self == CKind::FastFinal { 4 } else { 3 }
    }
}

pub fn cert_kind(c: &Cert) -> CKind {
    match c {
        Cert::Notar(_) => CKind::Notar,
        Cert::NotarFallback(_) => CKind::NotarFallback,
        Cert::Skip(_) => CKind::Skip,
        Cert::FastFinal(_) => CKind::FastFinal,
        Cert::Final(_) => CKind::Final,
    }
}

/// Plain-data description of a certificate: kind, slot, block tag, and the signer sets of the
/// primary half (notar / skip / final votes) and the fallback half (nf / skip-fallback).
#[derive(Clone, Debug, PartialEq, Eq, Hash, PartialOrd, Ord, Serialize, Deserialize)]
pub struct CertSpec {
    pub kind: CKind,
    pub slot: u64,
    pub block: u64,
    pub primary: Vec<usize>,
    pub fallback: Vec<usize>,
}

/// Builds the certificate through the crate's public constructors. Panics (caught by callers
/// where relevant) if the constructor's documented preconditions are violated (empty votes).
pub fn make_cert(spec: &CertSpec, validators: &[ValidatorInfo]) -> Cert {
    let slot = spec.slot;
    let nv = |signers: &[usize]| -> Vec<NotarVote> {
        signers
            .iter()
            .map(|&s| match make_vote(VoteSpec { kind: VKind::Notar, slot, block: spec.block, signer: s }) {
                Vote::Notar(v) => v,
                _ => unreachable!(),
            })
            .collect()
    };
    match spec.kind {
        CKind::Notar => Cert::Notar(NotarCert::try_new(&nv(&spec.primary), validators).expect("cert")),
        CKind::FastFinal => Cert::FastFinal(FastFinalCert::try_new(&nv(&spec.primary), validators).expect("cert")),
        CKind::NotarFallback => {
            let nf: Vec<NotarFallbackVote> = spec
                .fallback
                .iter()
                .map(|&s| match make_vote(VoteSpec { kind: VKind::NotarFallback, slot, block: spec.block, signer: s }) {
                    Vote::NotarFallback(v) => v,
                    _ => unreachable!(),
                })
                .collect();
            Cert::NotarFallback(NotarFallbackCert::try_new(&nv(&spec.primary), &nf, validators).expect("cert"))
        }
        CKind::Skip => {
            let sv: Vec<SkipVote> = spec
                .primary
                .iter()
                .map(|&s| match make_vote(VoteSpec { kind: VKind::Skip, slot, block: 0, signer: s }) {
                    Vote::Skip(v) => v,
                    _ => unreachable!(),
                })
                .collect();
            let sf: Vec<SkipFallbackVote> = spec
                .fallback
                .iter()
                .map(|&s| match make_vote(VoteSpec { kind: VKind::SkipFallback, slot, block: 0, signer: s }) {
                    Vote::SkipFallback(v) => v,
                    _ => unreachable!(),
                })
                .collect();
            Cert::Skip(SkipCert::try_new(&sv, &sf, validators).expect("cert"))
        }
        CKind::Final => {
            let fv: Vec<FinalVote> = spec
                .primary
                .iter()
                .map(|&s| match make_vote(VoteSpec { kind: VKind::Final, slot, block: 0, signer: s }) {
                    Vote::Final(v) => v,
                    _ => unreachable!(),
                })
                .collect();
            Cert::Final(FinalCert::try_new(&fv, validators).expect("cert"))
        }
    }
}

pub fn valid_cert(spec: &CertSpec, epoch: &EpochInfo) -> Result<ValidatedCert, String> {
    let cert = make_cert(spec, epoch.validators());
    ValidatedCert::try_new(cert, epoch).map_err(|e| format!("{e}"))
}

/// Total stake of a signer set (u128).
pub fn stake_of(signers: impl IntoIterator<Item = usize>, stakes: &[u64]) -> u128 {
    let mut seen = std::collections::BTreeSet::new();
    signers.into_iter().filter(|s| seen.insert(*s)).map(|s| stakes[s] as u128).sum()
}
