//! Real blocks: slices with valid transaction encodings, shredded with a leader key; Byzantine
//! variants are produced by shredding a different `Slice` value with the same key.

use alpenglow::Transaction;
use alpenglow::consensus::{BlockstoreEvent, BlockstoreImpl};
use alpenglow::crypto::merkle::{BlockHash, DoubleMerkleTree, SliceRoot};
use alpenglow::shredder::{RegularShredder, Shredder, TOTAL_SHREDS, ValidatedShred};
use alpenglow::types::Slice;
use serde::{Deserialize, Serialize};
use tokio::sync::mpsc::{Receiver, channel};

use super::keys;
use super::shreds::{make_slice, prng_bytes};

#[derive(Clone, Debug, Serialize, Deserialize)]
pub struct SliceSpec {
    /// lengths of the transactions in this slice
    pub txs: Vec<u16>,
    /// Some = this (non-first) slice switches the parent (optimistic handover)
    pub switch_parent: Option<(u64, u64)>,
}

#[derive(Clone, Debug, Serialize, Deserialize)]
pub struct BlockSpec {
    pub slot: u64,
    pub leader: u8,
    pub parent: (u64, u64),
    pub slices: Vec<SliceSpec>,
    pub seed: u64,
}

pub struct BuiltSlice {
    pub slice: Slice,
    pub shreds: Vec<ValidatedShred>,
    pub root: SliceRoot,
    pub txs: Vec<Transaction>,
}

pub struct BuiltBlock {
    pub slices: Vec<BuiltSlice>,
    pub hash: BlockHash,
    pub parent: (u64, u64),
}

pub fn tx_data(txs: &[Transaction]) -> Vec<u8> {
    wincode::serialize(&txs.to_vec()).expect("encode transactions")
}

pub fn shred_slice(slice: &Slice, leader: usize) -> Vec<ValidatedShred> {
    RegularShredder::default().shred(slice, &keys().sig[leader % 64]).expect("slice fits").to_vec()
}

pub fn build_slice(slice: Slice, leader: usize, txs: Vec<Transaction>) -> BuiltSlice {
    let shreds = shred_slice(&slice, leader);
    let root = shreds[0].slice_root().clone();
    BuiltSlice { slice, shreds, root, txs }
}

pub fn build_block(spec: &BlockSpec) -> BuiltBlock {
    let k = spec.slices.len().max(1);
    let mut slices = Vec::new();
    let mut parent = spec.parent;
    for (i, s) in spec.slices.iter().enumerate() {
        // keep each slice within the size limit
        let mut txs: Vec<Transaction> = Vec::new();
        let mut used = 60usize;
        for (j, len) in s.txs.iter().enumerate() {
            let len = (*len as usize).min(512);
            if used + len + 8 > 32_000 {
                break;
            }
            used += len + 8;
            txs.push(Transaction(prng_bytes(spec.seed ^ ((i as u64) << 20) ^ j as u64, len)));
        }
        let p = if i == 0 {
            Some(spec.parent)
        } else if let Some(np) = s.switch_parent {
            parent = np;
            Some(np)
        } else {
            None
        };
        let slice = make_slice(spec.slot, i, i + 1 == k, p, tx_data(&txs));
        slices.push(build_slice(slice, spec.leader as usize, txs));
    }
    let hash = DoubleMerkleTree::new(slices.iter().map(|s| &s.root)).get_root();
    BuiltBlock { slices, hash, parent }
}

/// A blockstore with its event channel tapped.
pub struct Store {
    pub store: BlockstoreImpl,
    pub events: Receiver<BlockstoreEvent>,
}

impl Store {
    pub fn new() -> Self {
        let (tx, events) = channel(4096);
        Self { store: BlockstoreImpl::new(tx), events }
    }
    pub fn drain(&mut self) -> Vec<BlockstoreEvent> {
        let mut v = Vec::new();
        while let Ok(e) = self.events.try_recv() {
            v.push(e);
        }
        v
    }
}

pub const N_SHREDS: usize = TOTAL_SHREDS;
