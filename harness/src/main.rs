//! verif-engine: property-based checks for qkniep/alpenglow.
#![allow(dead_code)]

use std::path::PathBuf;

use verif_engine::engine::{self, RunArgs, Tier, run_property};
use verif_engine::props;

fn usage() -> ! {
    eprintln!("usage: verif-engine <ID> [--tier quick|thorough] [--seed N] [--replay FILE] [--cases N] [--workers N]");
    std::process::exit(2);
}

fn main() {
    let mut args = std::env::args().skip(1);
    let Some(id) = args.next() else { usage() };
    if id == "fuzz-input" {
        // replays one libFuzzer input (artefact or corpus file) through the fuzz entry:
        // verif-engine fuzz-input <ID> <FILE>
        let (Some(pid), Some(file)) = (args.next(), args.next()) else { usage() };
        // SAFETY: single-threaded at this point
        unsafe { std::env::set_var("VERIF_FUZZ_PROP", &pid) };
        let data = std::fs::read(&file).unwrap_or_else(|e| {
            eprintln!("harness error: cannot read {file}: {e}");
            std::process::exit(2)
        });
        verif_engine::fuzz::one(&data);
        println!("fuzz input {file}: held");
        std::process::exit(0);
    }
    let mut tier = match std::env::var("VERIF_TIER").ok().as_deref() {
        Some("thorough") => Tier::Thorough,
        _ => Tier::Quick,
    };
    let mut seed: u64 = std::env::var("VERIF_SEED")
        .ok()
        .and_then(|s| s.trim().parse::<i128>().ok())
        .map(|v| v as u64)
        .unwrap_or(0);
    let mut replay = None;
    let mut cases_override = None;
    let mut workers = std::thread::available_parallelism().map(|n| n.get()).unwrap_or(4).min(16);
    while let Some(a) = args.next() {
        match a.as_str() {
            "--tier" => {
                tier = match args.next().as_deref() {
                    Some("quick") => Tier::Quick,
                    Some("thorough") => Tier::Thorough,
                    _ => usage(),
                }
            }
            "--seed" => seed = args.next().and_then(|s| s.parse::<i128>().ok()).map(|v| v as u64).unwrap_or_else(|| usage()),
            "--replay" => replay = Some(PathBuf::from(args.next().unwrap_or_else(|| usage()))),
            "--cases" => cases_override = args.next().and_then(|s| s.parse().ok()),
            "--workers" => workers = args.next().and_then(|s| s.parse().ok()).unwrap_or_else(|| usage()),
            _ => usage(),
        }
    }
    engine::install_panic_hook();
    let run_args = RunArgs { tier, seed, replay, workers, cases_override };
    let code = match id.as_str() {
        "C01" => run_property(props::c01_safety::C01, run_args),
        "C02" => run_property(props::c02_progress::C02, run_args),
        "C03" => run_property(props::c03_certs::C03, run_args),
        "C04" => run_property(props::c04_admission::C04, run_args),
        "C05" => run_property(props::c05_own_votes::C05, run_args),
        "C06" => run_property(props::c06_safe_to::C06, run_args),
        "C07" => run_property(props::c07_parent_ready::C07, run_args),
        "C08" => run_property(props::c08_finality::C08, run_args),
        "C09" => run_property(props::c09_admission::C09, run_args),
        "C10" => run_property(props::c10_hostile::C10, run_args),
        "C11" => run_property(props::c11_erasure::C11, run_args),
        "C12" => run_property(props::c12_shred_binding::C12, run_args),
        "C13" => run_property(props::c13_blockstore::C13, run_args),
        "C14" => run_property(props::c14_repair::C14, run_args),
        "C15" => run_property(props::c15_merkle::C15, run_args),
        "C16" => run_property(props::c16_routing::C16, run_args),
        "C17" => run_property(props::c17_sampling::C17, run_args),
        "C18" => run_property(props::c18_standstill::C18, run_args),
        "C19" => run_property(props::c19_wire::C19, run_args),
        "C20" => run_property(props::c20_state::C20, run_args),
        _ => {
            eprintln!("unknown property id {id}");
            2
        }
    };
    std::process::exit(code);
}
