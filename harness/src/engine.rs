//! Generic property runner: fixed-work proptest campaigns on worker threads, shrinking,
//! replay files, known-findings protocol, evidence output.

use std::cell::RefCell;
use std::collections::{BTreeMap, HashSet};
use std::fmt::Debug;
use std::hash::{Hash, Hasher};
use std::panic::{self, AssertUnwindSafe};
use std::path::{Path, PathBuf};
use std::sync::atomic::{AtomicBool, AtomicU64, Ordering};
use std::sync::{Arc, Mutex};
use std::time::Instant;

use proptest::strategy::{BoxedStrategy, Strategy};
use proptest::test_runner::{Config, RngSeed, TestCaseError, TestError, TestRunner};
use serde::de::DeserializeOwned;
use serde::{Deserialize, Serialize};
use serde_json::{Value, json};

pub const VERIF_ROOT: &str = "/verif";

/// Where evidence and replay files go: /verif, unless a scratch run (sensitivity sweep against a
/// scratch copy of the repository) redirects its output with VERIF_OUT_ROOT.
fn out_root() -> PathBuf {
    std::env::var_os("VERIF_OUT_ROOT").map(PathBuf::from).unwrap_or_else(|| PathBuf::from(VERIF_ROOT))
}

#[derive(Clone, Copy, Debug, PartialEq, Eq)]
pub enum Tier {
    Quick,
    Thorough,
}

impl Tier {
    pub fn as_str(self) -> &'static str {
        match self {
            Tier::Quick => "quick",
            Tier::Thorough => "thorough",
        }
    }
    pub fn pick<T>(self, quick: T, thorough: T) -> T {
        match self {
            Tier::Quick => quick,
            Tier::Thorough => thorough,
        }
    }
}

/// A property violation as seen by an oracle. `signature` identifies the root cause class
/// (used for the known-findings protocol), `detail` is free text for the replay file.
#[derive(Clone, Debug, Serialize, Deserialize)]
pub struct Violation {
    pub signature: String,
    pub detail: String,
}

impl Violation {
    pub fn new(signature: impl Into<String>, detail: impl Into<String>) -> Self {
        Self {
            signature: signature.into(),
            detail: detail.into(),
        }
    }
}

/// Result of running one generated case.
#[derive(Clone, Debug, Default)]
pub struct Outcome {
    /// Violations found in this case (the first one not listed as known decides).
    pub violations: Vec<Violation>,
    /// Whether the case is non-trivial by the property's stated rule.
    pub nontrivial: bool,
    /// Classification labels (generator / oracle classes hit by this case).
    pub labels: Vec<String>,
    /// Number of elementary oracle checks evaluated in this case.
    pub checks: u64,
    /// Number of sub-inputs excluded by construction because they belong to a known finding.
    pub excluded_known: u64,
    /// Hash of the run's observable trace (simulations): with VERIF_TWICE set every case is run
    /// twice and differing hashes are reported as harness nondeterminism (exit 2).
    pub trace: Option<u64>,
}

impl Outcome {
    pub fn label(&mut self, l: impl Into<String>) {
        let l = l.into();
        if !self.labels.contains(&l) {
            self.labels.push(l);
        }
    }
    pub fn violate(&mut self, signature: impl Into<String>, detail: impl Into<String>) {
        self.violations.push(Violation::new(signature, detail));
    }
    /// Records a violation unless `cond` holds; counts one oracle check.
    pub fn check(&mut self, cond: bool, signature: &str, detail: impl FnOnce() -> String) -> bool {
        self.checks += 1;
        if !cond {
            self.violations.push(Violation::new(signature, detail()));
        }
        cond
    }
    pub fn failed(&self) -> bool {
        !self.violations.is_empty()
    }
}

pub trait Property: Send + Sync + 'static {
    type Case: Debug + Clone + Serialize + DeserializeOwned + Send + 'static;

    fn id(&self) -> &'static str;
    fn cases(&self, tier: Tier) -> u32;
    fn rule(&self) -> String;
    fn assumptions(&self) -> Vec<String>;
    fn strategy(&self, tier: Tier) -> BoxedStrategy<Self::Case>;
    fn run(&self, case: &Self::Case) -> Outcome;
    /// Hand-written or previously shrunk cases that are always replayed first.
    fn regressions(&self) -> Vec<Self::Case> {
        Vec::new()
    }
    /// Whether a generated case should be executed by the coverage-guided driver (cases that
    /// sleep on real sockets are left to the proptest tier).
    fn fuzzable(&self, _case: &Self::Case) -> bool {
        true
    }
    /// Maximum shrink iterations.
    fn max_shrink_iters(&self) -> u32 {
        400
    }
    /// Abbreviates a case for the evidence samples.
    fn sample(&self, case: &Self::Case) -> Value {
        abbreviate(serde_json::to_value(case).unwrap_or(Value::Null))
    }
}

// ----------------------------------------------------------------------------------------
// panic capture

thread_local! {
    static LAST_PANICS: RefCell<Vec<String>> = const { RefCell::new(Vec::new()) };
    static QUIET: RefCell<bool> = const { RefCell::new(false) };
}

/// Installs the process-wide panic hook: records every panic (message + location) in a
/// thread-local list and prints nothing while a case is running on that thread.
pub fn install_panic_hook() {
    let default = panic::take_hook();
    panic::set_hook(Box::new(move |info| {
        let msg = if let Some(s) = info.payload().downcast_ref::<&str>() {
            (*s).to_string()
        } else if let Some(s) = info.payload().downcast_ref::<String>() {
            s.clone()
        } else {
            "<non-string panic>".to_string()
        };
        let loc = info
            .location()
            .map(|l| format!("{}:{}", l.file(), l.line()))
            .unwrap_or_default();
        let quiet = QUIET.with(|q| *q.borrow());
        LAST_PANICS.with(|p| p.borrow_mut().push(format!("{msg} @ {loc}")));
        if !quiet {
            default(info);
        }
    }));
}

/// Takes the panics recorded on this thread since the last call.
pub fn take_panics() -> Vec<String> {
    LAST_PANICS.with(|p| std::mem::take(&mut *p.borrow_mut()))
}

pub fn set_quiet(q: bool) {
    QUIET.with(|c| *c.borrow_mut() = q);
}

/// Runs `f`, converting a panic into `Err(description)`.
pub fn catch<T>(f: impl FnOnce() -> T) -> Result<T, String> {
    let before = LAST_PANICS.with(|p| p.borrow().len());
    match panic::catch_unwind(AssertUnwindSafe(f)) {
        Ok(v) => Ok(v),
        Err(_) => {
            let msg = LAST_PANICS.with(|p| {
                let mut p = p.borrow_mut();
                if p.len() > before {
                    let m = p[before..].join(" | ");
                    p.truncate(before);
                    m
                } else {
                    "<panic>".to_string()
                }
            });
            Err(msg)
        }
    }
}

/// Strips the absolute repository prefix and line numbers from a panic description so that it
/// can be used inside a root-cause signature.
pub fn panic_site(desc: &str) -> String {
    // "message @ /repo/src/x.rs:12" -> "src/x.rs"
    match desc.rsplit_once(" @ ") {
        Some((_, loc)) => {
            let loc = loc.trim_start_matches("/repo/");
            loc.split(':').next().unwrap_or(loc).to_string()
        }
        None => String::new(),
    }
}

pub fn panic_msg(desc: &str) -> String {
    let m = desc.rsplit_once(" @ ").map(|(m, _)| m).unwrap_or(desc);
    // keep the stable leading part of the message only
    let m: String = m.chars().take(60).collect();
    m.split(|c: char| c.is_ascii_digit()).next().unwrap_or("").trim().to_string()
}

// ----------------------------------------------------------------------------------------
// known findings

#[derive(Clone, Debug, Deserialize)]
pub struct FindingEntry {
    pub property: String,
    pub signature: String,
    pub status: String,
    #[serde(default)]
    pub commit: Option<String>,
    pub what: String,
}

#[derive(Clone, Debug, Default)]
pub struct Findings {
    entries: Vec<FindingEntry>,
}

impl Findings {
    pub fn load() -> Self {
        let path = Path::new(VERIF_ROOT).join("known_findings.json");
        let Ok(text) = std::fs::read_to_string(&path) else {
            return Self::default();
        };
        #[derive(Deserialize)]
        struct File {
            findings: Vec<FindingEntry>,
        }
        match serde_json::from_str::<File>(&text) {
            Ok(f) => Self { entries: f.findings },
            Err(e) => {
                eprintln!("harness error: cannot parse known_findings.json: {e}");
                std::process::exit(2);
            }
        }
    }

    /// Returns the entry if `signature` is listed as a *known* (not fixed) finding.
    pub fn known(&self, property: &str, signature: &str) -> Option<&FindingEntry> {
        self.entries
            .iter()
            .find(|e| e.property == property && e.status == "known" && e.signature == signature)
    }
}

static FINDINGS: std::sync::OnceLock<Findings> = std::sync::OnceLock::new();

pub fn findings() -> &'static Findings {
    FINDINGS.get_or_init(Findings::load)
}

/// Convenience for generators/oracles that exclude a known class by construction.
pub fn is_known(property: &str, signature: &str) -> bool {
    findings().known(property, signature).is_some()
}

// ----------------------------------------------------------------------------------------
// statistics

#[derive(Default)]
struct Stats {
    evaluations: u64,
    checks: u64,
    nontrivial: HashSet<u64>,
    labels: BTreeMap<String, u64>,
    samples: Vec<Value>,
    known_hits: BTreeMap<String, u64>,
    excluded_known: u64,
}

impl Stats {
    fn merge(&mut self, o: Stats) {
        self.evaluations += o.evaluations;
        self.checks += o.checks;
        self.nontrivial.extend(o.nontrivial);
        for (k, v) in o.labels {
            *self.labels.entry(k).or_default() += v;
        }
        for s in o.samples {
            if self.samples.len() < 5 {
                self.samples.push(s);
            }
        }
        for (k, v) in o.known_hits {
            *self.known_hits.entry(k).or_default() += v;
        }
        self.excluded_known += o.excluded_known;
    }
}

pub fn fingerprint<T: Serialize>(v: &T) -> u64 {
    let s = serde_json::to_string(v).unwrap_or_default();
    let mut h = std::collections::hash_map::DefaultHasher::new();
    s.hash(&mut h);
    h.finish()
}

/// Shortens long arrays / strings in a JSON value so that samples stay readable.
pub fn abbreviate(v: Value) -> Value {
    match v {
        Value::Array(a) => {
            let n = a.len();
            let mut out: Vec<Value> = a.into_iter().take(24).map(abbreviate).collect();
            if n > 24 {
                out.push(Value::String(format!("… {} more", n - 24)));
            }
            Value::Array(out)
        }
        Value::Object(m) => Value::Object(m.into_iter().map(|(k, v)| (k, abbreviate(v))).collect()),
        Value::String(s) if s.len() > 160 => {
            let cut: String = s.chars().take(160).collect();
            Value::String(format!("{cut}… ({} chars)", s.len()))
        }
        other => other,
    }
}

fn mix(a: u64, b: u64) -> u64 {
    // splitmix64 step
    let mut z = a.wrapping_add(b.wrapping_mul(0x9E37_79B9_7F4A_7C15)).wrapping_add(0x9E37_79B9_7F4A_7C15);
    z = (z ^ (z >> 30)).wrapping_mul(0xBF58_476D_1CE4_E5B9);
    z = (z ^ (z >> 27)).wrapping_mul(0x94D0_49BB_1331_11EB);
    z ^ (z >> 31)
}

fn id_hash(id: &str) -> u64 {
    id.bytes().fold(0xcbf2_9ce4_8422_2325u64, |h, b| (h ^ b as u64).wrapping_mul(0x100_0000_01b3))
}

#[derive(Serialize, Deserialize)]
struct ReplayFile<C> {
    property: String,
    tier: String,
    seed: u64,
    signature: String,
    detail: String,
    case: C,
}

pub struct RunArgs {
    pub tier: Tier,
    pub seed: u64,
    pub replay: Option<PathBuf>,
    pub workers: usize,
    pub cases_override: Option<u32>,
}

/// Decides one case: returns Ok(outcome) when everything that fired is a listed known finding
/// (or nothing fired), Err((violation, outcome)) otherwise.
pub fn decide<P: Property>(prop: &P, case: &P::Case) -> (Outcome, Option<Violation>, Vec<FindingEntry>) {
    set_quiet(true);
    let mut res = catch(|| prop.run(case));
    if std::env::var_os("VERIF_TWICE").is_some()
        && let Ok(first) = &res
        && first.trace.is_some()
    {
        let again = catch(|| prop.run(case));
        if let Ok(second) = &again
            && second.trace != first.trace
        {
            let mut o = Outcome::default();
            o.violate(
                format!("{}/nondeterministic-run/src/fixtures/", prop.id()),
                format!("two runs of the same case produced traffic hashes {:?} and {:?}", first.trace, second.trace),
            );
            res = Ok(o);
        }
    }
    set_quiet(false);
    let _ = take_panics();
    let outcome = match res {
        Ok(o) => o,
        Err(desc) => {
            // an uncaught panic inside run(): either the harness itself or SUT code called
            // outside a catch; report it as a violation with a panic signature so that it is
            // never silently a pass.
            let mut o = Outcome::default();
            o.violate(
                format!("{}/uncaught-panic/{}/{}", prop.id(), panic_site(&desc), panic_msg(&desc)),
                desc,
            );
            o
        }
    };
    let mut known = Vec::new();
    let mut first_new = None;
    for v in &outcome.violations {
        if let Some(e) = findings().known(prop.id(), &v.signature) {
            known.push(e.clone());
        } else if first_new.is_none() {
            first_new = Some(v.clone());
        }
    }
    (outcome, first_new, known)
}

pub fn run_property<P: Property>(prop: P, args: RunArgs) -> i32 {
    let prop = Arc::new(prop);
    let id = prop.id();
    let t0 = Instant::now();

    if let Some(path) = &args.replay {
        return replay(&*prop, path);
    }

    let total_cases = args.cases_override.unwrap_or_else(|| prop.cases(args.tier));
    let workers = args.workers.max(1).min(total_cases.max(1) as usize);
    let printed_known: Arc<Mutex<BTreeMap<String, String>>> = Arc::new(Mutex::new(BTreeMap::new()));

    // --- regression tier: fixed cases, bypassing proptest
    let mut stats = Stats::default();
    let regress = if std::env::var_os("VERIF_SKIP_REGRESS").is_some() { Vec::new() } else { prop.regressions() };
    for (i, case) in regress.into_iter().enumerate() {
        let (outcome, new, known) = decide(&*prop, &case);
        for e in known {
            printed_known.lock().unwrap().insert(e.signature.clone(), e.what.clone());
            *stats.known_hits.entry(e.signature).or_default() += 1;
        }
        stats.evaluations += 1;
        stats.checks += outcome.checks;
        if let Some(v) = new {
            let path = write_replay(&*prop, &args, &case, &v);
            if is_harness_fault(&v) {
                eprintln!("harness error: regression case #{i} panicked inside the harness: {} — {} (case saved to {})", v.signature, v.detail, path.display());
                return 2;
            }
            stats.samples.push(prop.sample(&case));
            write_evidence(&*prop, &args, &stats, total_cases, t0, 1);
            println!("regression case #{i} failed: {} — {}", v.signature, v.detail);
            println!("VIOLATION property={id} replay={}", path.display());
            return 1;
        }
    }

    let failed_flag = Arc::new(AtomicBool::new(false));
    let progress = Arc::new(AtomicU64::new(0));
    let mut handles = Vec::new();
    for w in 0..workers {
        let prop = Arc::clone(&prop);
        let failed_flag = Arc::clone(&failed_flag);
        let printed_known = Arc::clone(&printed_known);
        let progress = Arc::clone(&progress);
        let tier = args.tier;
        let seed = mix(mix(args.seed, id_hash(id)), w as u64);
        let my_cases = total_cases / workers as u32 + u32::from((w as u32) < total_cases % workers as u32);
        let handle = std::thread::Builder::new()
            .name(format!("worker-{w}"))
            .stack_size(64 << 20)
            .spawn(move || {
                let stats = RefCell::new(Stats::default());
                let i_failed = RefCell::new(false);
                let config = Config {
                    cases: my_cases,
                    failure_persistence: None,
                    rng_seed: RngSeed::Fixed(seed),
                    max_shrink_iters: prop.max_shrink_iters(),
                    max_global_rejects: 1 << 20,
                    verbose: 0,
                    ..Config::default()
                };
                let mut runner = TestRunner::new(config);
                let strategy = prop.strategy(tier);
                let result = runner.run(&strategy, |case| {
                    if !*i_failed.borrow() && failed_flag.load(Ordering::Relaxed) {
                        // another worker failed: stop doing work
                        return Ok(());
                    }
                    if std::env::var_os("VERIF_TRACE").is_some() {
                        eprintln!("start worker={w} case={}", serde_json::to_string(&case).unwrap_or_default());
                    }
                    let (outcome, new, known) = decide(&*prop, &case);
                    if std::env::var_os("VERIF_TRACE").is_some() {
                        let rss = std::fs::read_to_string("/proc/self/statm").ok().and_then(|s| s.split(' ').nth(1).and_then(|x| x.parse::<u64>().ok())).unwrap_or(0) * 4 / 1024;
                        eprintln!("trace worker={w} rss_mb={rss} case={}", serde_json::to_string(&case).unwrap_or_default().chars().take(300).collect::<String>());
                    }
                    if !*i_failed.borrow() {
                        let mut st = stats.borrow_mut();
                        st.evaluations += 1;
                        st.checks += outcome.checks;
                        st.excluded_known += outcome.excluded_known;
                        for l in &outcome.labels {
                            *st.labels.entry(l.clone()).or_default() += 1;
                        }
                        if outcome.nontrivial {
                            let fp = fingerprint(&case);
                            if st.nontrivial.insert(fp) && st.samples.len() < 5 {
                                st.samples.push(prop.sample(&case));
                            }
                        }
                        for e in &known {
                            *st.known_hits.entry(e.signature.clone()).or_default() += 1;
                            printed_known.lock().unwrap().insert(e.signature.clone(), e.what.clone());
                        }
                        progress.fetch_add(1, Ordering::Relaxed);
                    }
                    match new {
                        None => Ok(()),
                        Some(v) => {
                            *i_failed.borrow_mut() = true;
                            failed_flag.store(true, Ordering::Relaxed);
                            Err(TestCaseError::fail(format!("{} — {}", v.signature, v.detail)))
                        }
                    }
                });
                let failure = match result {
                    Ok(()) => None,
                    Err(TestError::Fail(_, case)) => Some(case),
                    Err(TestError::Abort(reason)) => {
                        eprintln!("harness error: proptest aborted in worker {w}: {reason}");
                        std::process::exit(2);
                    }
                };
                (stats.into_inner(), failure)
            })
            .expect("spawn worker");
        handles.push(handle);
    }

    let mut failure: Option<P::Case> = None;
    for h in handles {
        match h.join() {
            Ok((st, f)) => {
                stats.merge(st);
                if failure.is_none() {
                    failure = f;
                }
            }
            Err(_) => {
                eprintln!("harness error: worker thread panicked");
                return 2;
            }
        }
    }

    for (sig, what) in printed_known.lock().unwrap().iter() {
        println!("KNOWN-FINDING: property={id} {what} [{sig}]");
    }

    let mut exit = 0;
    let mut violations = 0;
    if let Some(case) = failure {
        if stats.samples.is_empty() {
            stats.samples.push(prop.sample(&case));
        }
        // re-run the shrunk case to get its violation text
        let (_, new, _) = decide(&*prop, &case);
        let v = new.unwrap_or_else(|| Violation::new(format!("{id}/unstable"), "shrunk case no longer fails on re-run"));
        if v.signature.ends_with("/unstable") {
            eprintln!("harness error: failing case is not reproducible (nondeterminism)");
            let _ = write_replay(&*prop, &args, &case, &v);
            write_evidence(&*prop, &args, &stats, total_cases, t0, 0);
            return 2;
        }
        let path = write_replay(&*prop, &args, &case, &v);
        if is_harness_fault(&v) {
            eprintln!("harness error: a generated case panicked inside the harness: {} — {} (case saved to {})", v.signature, v.detail, path.display());
            write_evidence(&*prop, &args, &stats, total_cases, t0, 0);
            return 2;
        }
        println!("violation: {} — {}", v.signature, v.detail);
        println!("VIOLATION property={id} replay={}", path.display());
        exit = 1;
        violations = 1;
    }
    write_evidence(&*prop, &args, &stats, total_cases, t0, violations);
    println!(
        "{id} {}: {} cases, {} distinct non-trivial, {} oracle checks, {:.1}s{}",
        args.tier.as_str(),
        stats.evaluations,
        stats.nontrivial.len(),
        stats.checks,
        t0.elapsed().as_secs_f64(),
        if exit == 0 { " — held" } else { " — VIOLATED" }
    );
    exit
}

fn replay<P: Property>(prop: &P, path: &Path) -> i32 {
    let text = match std::fs::read_to_string(path) {
        Ok(t) => t,
        Err(e) => {
            eprintln!("harness error: cannot read replay {}: {e}", path.display());
            return 2;
        }
    };
    let file: ReplayFile<P::Case> = match serde_json::from_str(&text) {
        Ok(f) => f,
        Err(e) => {
            eprintln!("harness error: cannot parse replay {}: {e}", path.display());
            return 2;
        }
    };
    let (outcome, new, known) = decide(prop, &file.case);
    for e in known {
        println!("KNOWN-FINDING: property={} {} [{}]", prop.id(), e.what, e.signature);
    }
    match new {
        Some(v) if is_harness_fault(&v) => {
            eprintln!("harness error: the case panics inside the harness: {} — {}", v.signature, v.detail);
            2
        }
        Some(v) => {
            println!("violation: {} — {}", v.signature, v.detail);
            println!("VIOLATION property={} replay={}", prop.id(), path.display());
            1
        }
        None => {
            println!("replay {}: held ({} checks)", path.display(), outcome.checks);
            0
        }
    }
}

fn write_replay<P: Property>(prop: &P, args: &RunArgs, case: &P::Case, v: &Violation) -> PathBuf {
    write_replay_raw(prop, args.tier.as_str(), args.seed, case, v)
}

pub fn write_replay_raw<P: Property>(prop: &P, tier: &str, seed: u64, case: &P::Case, v: &Violation) -> PathBuf {
    let dir = out_root().join("replays");
    let _ = std::fs::create_dir_all(&dir);
    let path = dir.join(format!("{}-{:016x}.json", prop.id(), fingerprint(case)));
    let file = ReplayFile {
        property: prop.id().to_string(),
        tier: tier.to_string(),
        seed,
        signature: v.signature.clone(),
        detail: v.detail.clone(),
        case: case.clone(),
    };
    let text = serde_json::to_string_pretty(&file).unwrap_or_default();
    if let Err(e) = std::fs::write(&path, text) {
        eprintln!("harness error: cannot write replay file: {e}");
    }
    path
}

fn write_evidence<P: Property>(
    prop: &P,
    args: &RunArgs,
    stats: &Stats,
    planned: u32,
    t0: Instant,
    violations: u32,
) {
    let dir = out_root().join("evidence");
    let _ = std::fs::create_dir_all(&dir);
    let labels: serde_json::Map<String, Value> =
        stats.labels.iter().map(|(k, v)| (k.clone(), json!(v))).collect();
    let known: serde_json::Map<String, Value> =
        stats.known_hits.iter().map(|(k, v)| (k.clone(), json!(v))).collect();
    let fuzz = fuzz_summary();
    let (fuzz_execs, fuzz_distinct) = fuzz
        .as_ref()
        .map(|f| (f["execs"].as_u64().unwrap_or(0), f["distinct_nontrivial_lower_bound"].as_u64().unwrap_or(0)))
        .unwrap_or((0, 0));
    let mut ev = json!({
        "property_id": prop.id(),
        "tier": args.tier.as_str(),
        "seed": args.seed,
        "level": "exploration",
        "coverage": {
            "evaluations": stats.evaluations + fuzz_execs,
            "distinct_nontrivial": stats.nontrivial.len() as u64 + fuzz_distinct,
            "proptest_cases": stats.evaluations,
            "proptest_distinct_nontrivial": stats.nontrivial.len(),
            "rule": prop.rule(),
            "samples": stats.samples,
            "planned_cases": planned,
            "oracle_checks": stats.checks,
            "classes": labels,
            "known_finding_hits": known,
            "excluded_known": stats.excluded_known,
            "exhaustive": false,
        },
        "assumptions": prop.assumptions(),
        "wall_s": (t0.elapsed().as_secs_f64() * 100.0).round() / 100.0,
        "violations": violations,
    });
    if let Some(f) = fuzz {
        ev["coverage"]["fuzz"] = f;
    }
    let path = dir.join(format!("{}.json", prop.id()));
    let tmp = dir.join(format!("{}.json.tmp", prop.id()));
    if std::fs::write(&tmp, serde_json::to_string_pretty(&ev).unwrap_or_default()).is_ok() {
        let _ = std::fs::rename(&tmp, &path);
    }
}

/// Statistics of the libFuzzer campaign that preceded this run (thorough tier; see `fuzz.rs` and
/// tools/fuzz_campaign.sh): one file per process in `$VERIF_FUZZ_STATS_DIR`.
fn fuzz_summary() -> Option<Value> {
    let dir = std::env::var_os("VERIF_FUZZ_STATS_DIR")?;
    let rc = std::env::var("VERIF_FUZZ_RC").unwrap_or_default();
    let mut execs = 0u64;
    let mut generated = 0u64;
    let mut rejects = 0u64;
    let mut checks = 0u64;
    let mut violations = 0u64;
    let mut excluded = 0u64;
    let mut distinct: Vec<u64> = Vec::new();
    let mut classes: BTreeMap<String, u64> = BTreeMap::new();
    let mut known: BTreeMap<String, u64> = BTreeMap::new();
    let mut samples: Vec<Value> = Vec::new();
    if let Ok(rd) = std::fs::read_dir(&dir) {
        let mut files: Vec<_> = rd.flatten().map(|e| e.path()).filter(|p| p.extension().is_some_and(|e| e == "json")).collect();
        files.sort();
        for f in files {
            let Ok(text) = std::fs::read_to_string(&f) else { continue };
            let Ok(v) = serde_json::from_str::<Value>(&text) else { continue };
            execs += v["execs"].as_u64().unwrap_or(0);
            generated += v["cases_generated"].as_u64().unwrap_or(0);
            rejects += v["generator_rejects"].as_u64().unwrap_or(0);
            checks += v["oracle_checks"].as_u64().unwrap_or(0);
            violations += v["violations"].as_u64().unwrap_or(0);
            excluded += v["excluded_known"].as_u64().unwrap_or(0);
            distinct.push(v["distinct_nontrivial"].as_u64().unwrap_or(0));
            for (key, into) in [("classes", &mut classes), ("known_finding_hits", &mut known)] {
                if let Some(m) = v[key].as_object() {
                    for (k, n) in m {
                        *into.entry(k.clone()).or_default() += n.as_u64().unwrap_or(0);
                    }
                }
            }
            if samples.len() < 2
                && let Some(a) = v["samples"].as_array()
                && let Some(first) = a.first()
            {
                samples.push(first.clone());
            }
        }
    }
    let note = match rc.as_str() {
        "0" => "campaign completed",
        "1" => "campaign reported a violation",
        "2" => "a libFuzzer process ended abnormally (timeout / OOM / harness error) without a property violation",
        "3" => "the fuzz target did not build with the nightly toolchain; proptest tier only",
        _ => "",
    };
    Some(json!({
        "engine": "libFuzzer (cargo-fuzz), input bytes = random stream of the property's proptest generator, oracle = the property's run()",
        "processes": distinct.len(),
        "execs": execs,
        "cases_generated": generated,
        "generator_rejects": rejects,
        "oracle_checks": checks,
        "distinct_nontrivial_per_process": distinct,
        "distinct_nontrivial_lower_bound": distinct.iter().copied().max().unwrap_or(0),
        "classes": classes,
        "known_finding_hits": known,
        "excluded_known": excluded,
        "violations": violations,
        "samples": samples,
        "status": note,
    }))
}

/// A panic raised by the harness's own code is a defect of the machinery, not of the code under
/// test: it is reported as exit 2, never as a violation.
pub fn is_harness_fault(v: &Violation) -> bool {
    v.signature.contains("/verif/harness/src/") || v.signature.contains("/src/props/") || v.signature.contains("/src/fixtures/")
}

/// Monotone index mapping: a generated u16 chooses an element of a collection of length `len`
/// such that shrinking the u16 shrinks the choice.
pub fn pick_idx(raw: u16, len: usize) -> usize {
    if len == 0 {
        return 0;
    }
    ((raw as usize) * len) >> 16
}

pub fn boxed<S: Strategy + 'static>(s: S) -> BoxedStrategy<S::Value> {
    s.boxed()
}
