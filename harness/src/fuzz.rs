//! Coverage-guided entry point (libFuzzer, `/verif/fuzz`): the fuzzer's input bytes are used as
//! the random stream of the property's own proptest generator (`RngAlgorithm::PassThrough`), the
//! generated case is judged by the property's own oracle. A violation that is not a listed known
//! finding writes a replay file, prints the VIOLATION line and aborts the process so that
//! libFuzzer keeps the crashing input as an artefact.
//!
//! Environment: `VERIF_FUZZ_PROP` (property id), `VERIF_FUZZ_STATS` (directory for the per-process
//! statistics file), `VERIF_FUZZ_RUNS` (flush the statistics when this many inputs were executed),
//! `VERIF_SEED` (recorded in the replay file).

use std::cell::RefCell;
use std::collections::{BTreeMap, HashSet};
use std::path::PathBuf;

use proptest::strategy::{Strategy, ValueTree};
use proptest::test_runner::{Config, RngAlgorithm, TestRng, TestRunner};
use serde_json::{Value, json};

use crate::engine::{self, Property, Tier};

#[derive(Default)]
struct FuzzStats {
    execs: u64,
    generated: u64,
    rejected: u64,
    checks: u64,
    nontrivial: HashSet<u64>,
    labels: BTreeMap<String, u64>,
    known_hits: BTreeMap<String, u64>,
    excluded_known: u64,
    samples: Vec<Value>,
    violations: u64,
}

struct Ctx {
    id: String,
    stats_dir: Option<PathBuf>,
    flush_at: u64,
    seed: u64,
    stats: FuzzStats,
}

thread_local! {
    static CTX: RefCell<Option<Ctx>> = const { RefCell::new(None) };
    static STRATEGY: RefCell<Option<Box<dyn std::any::Any>>> = const { RefCell::new(None) };
}

fn flush(ctx: &Ctx) {
    let Some(dir) = &ctx.stats_dir else { return };
    let _ = std::fs::create_dir_all(dir);
    let s = &ctx.stats;
    let v = json!({
        "property_id": ctx.id,
        "execs": s.execs,
        "cases_generated": s.generated,
        "generator_rejects": s.rejected,
        "oracle_checks": s.checks,
        "distinct_nontrivial": s.nontrivial.len(),
        "classes": s.labels,
        "known_finding_hits": s.known_hits,
        "excluded_known": s.excluded_known,
        "samples": s.samples,
        "violations": s.violations,
    });
    let path = dir.join(format!("stats-{}.json", std::process::id()));
    let tmp = dir.join(format!("stats-{}.json.tmp", std::process::id()));
    if std::fs::write(&tmp, serde_json::to_string(&v).unwrap_or_default()).is_ok() {
        let _ = std::fs::rename(&tmp, &path);
    }
}

fn one_for<P: Property>(prop: &P, data: &[u8], ctx: &mut Ctx) {
    ctx.stats.execs += 1;
    let strategy = STRATEGY.with(|s| {
        let mut s = s.borrow_mut();
        if s.is_none() {
            *s = Some(Box::new(prop.strategy(Tier::Thorough)));
        }
        s.as_ref().and_then(|b| b.downcast_ref::<proptest::strategy::BoxedStrategy<P::Case>>()).cloned()
    });
    let Some(strategy) = strategy else { return };
    // (vendor/proptest is patched so that an exhausted pass-through stream continues with
    // pseudo-random bytes instead of zeros, which would hang rejection sampling)
    let rng = TestRng::from_seed(RngAlgorithm::PassThrough, data);
    let mut runner = TestRunner::new_with_rng(Config { failure_persistence: None, ..Config::default() }, rng);
    let case = match strategy.new_tree(&mut runner) {
        Ok(t) => t.current(),
        Err(_) => {
            ctx.stats.rejected += 1;
            return;
        }
    };
    ctx.stats.generated += 1;
    if !prop.fuzzable(&case) {
        *ctx.stats.labels.entry("left-to-the-proptest-tier".into()).or_default() += 1;
        return;
    }
    let (outcome, new, known) = engine::decide(prop, &case);
    let st = &mut ctx.stats;
    st.checks += outcome.checks;
    st.excluded_known += outcome.excluded_known;
    for l in &outcome.labels {
        *st.labels.entry(l.clone()).or_default() += 1;
    }
    if outcome.nontrivial && st.nontrivial.insert(engine::fingerprint(&case)) && st.samples.len() < 3 {
        st.samples.push(prop.sample(&case));
    }
    for e in &known {
        *st.known_hits.entry(e.signature.clone()).or_default() += 1;
    }
    if let Some(v) = new {
        st.violations += 1;
        let path = engine::write_replay_raw(prop, "thorough", ctx.seed, &case, &v);
        if engine::is_harness_fault(&v) {
            ctx.stats.violations -= 1;
            flush(ctx);
            eprintln!("harness error: a generated case panicked inside the harness: {} — {} (case saved to {})", v.signature, v.detail, path.display());
            std::process::exit(2);
        }
        flush(ctx);
        println!("violation: {} — {}", v.signature, v.detail);
        println!("VIOLATION property={} replay={}", prop.id(), path.display());
        eprintln!("VIOLATION property={} replay={}", prop.id(), path.display());
        std::process::abort();
    }
    if ctx.stats.execs == ctx.flush_at || ctx.stats.execs % 4096 == 0 {
        flush(ctx);
    }
}

/// One libFuzzer iteration.
pub fn one(data: &[u8]) {
    use crate::props::*;
    CTX.with(|c| {
        let mut c = c.borrow_mut();
        if c.is_none() {
            engine::install_panic_hook();
            let id = std::env::var("VERIF_FUZZ_PROP").unwrap_or_else(|_| "C19".into());
            *c = Some(Ctx {
                id,
                stats_dir: std::env::var_os("VERIF_FUZZ_STATS").map(PathBuf::from),
                flush_at: std::env::var("VERIF_FUZZ_RUNS").ok().and_then(|s| s.parse().ok()).unwrap_or(0),
                seed: std::env::var("VERIF_SEED").ok().and_then(|s| s.trim().parse::<i128>().ok()).map(|v| v as u64).unwrap_or(0),
                stats: FuzzStats::default(),
            });
        }
        let Some(ctx) = c.as_mut() else { return };
        match ctx.id.clone().as_str() {
            "C03" => one_for(&c03_certs::C03, data, ctx),
            "C04" => one_for(&c04_admission::C04, data, ctx),
            "C06" => one_for(&c06_safe_to::C06, data, ctx),
            "C07" => one_for(&c07_parent_ready::C07, data, ctx),
            "C08" => one_for(&c08_finality::C08, data, ctx),
            "C09" => one_for(&c09_admission::C09, data, ctx),
            "C11" => one_for(&c11_erasure::C11, data, ctx),
            "C12" => one_for(&c12_shred_binding::C12, data, ctx),
            "C13" => one_for(&c13_blockstore::C13, data, ctx),
            "C15" => one_for(&c15_merkle::C15, data, ctx),
            "C17" => one_for(&c17_sampling::C17, data, ctx),
            "C19" => one_for(&c19_wire::C19, data, ctx),
            "C20" => one_for(&c20_state::C20, data, ctx),
            other => {
                eprintln!("harness error: property {other} has no fuzz entry");
                std::process::exit(2);
            }
        }
    });
}
