//! C04 — vote admission: one countable vote per validator and class, slashing flagged order-free.
//!
//! Oracle: the decision table in `PoolModel::predict`, written from the property statement.

use std::collections::BTreeSet;

use alpenglow::consensus::AddVoteError;
use proptest::prelude::*;

use super::c03_certs::{Case, Mode, Op, case_strategy, run_case};
use crate::engine::{Outcome, Property, Tier};
use crate::fixtures::pool_model::{Expect, Offence, PoolModel};
use crate::fixtures::votes::{VKind, VoteSpec};

fn offence_of(e: &AddVoteError) -> Option<Offence> {
    // the offence enum is not re-exported; classify through its Display text
    match e {
        AddVoteError::Slashable(o) => {
            let t = format!("{o}");
            Some(if t.contains("different hash") {
                Offence::NotarDifferentHash
            } else if t.contains("skip and notarize") {
                Offence::SkipAndNotarize
            } else if t.contains("skip(-fallback) and finalize") {
                Offence::SkipAndFinalize
            } else {
                Offence::NotarFallbackAndFinalize
            })
        }
        _ => None,
    }
}

/// Compares the pool's verdict with the statement's decision table.
pub fn judge(
    out: &mut Outcome,
    model: &PoolModel,
    spec: &VoteSpec,
    predicted: &Expect,
    verdict: &Result<(), AddVoteError>,
    step: usize,
    pairs: &mut BTreeSet<String>,
) {
    // coverage: which (already accepted kind, relation) x incoming kind pairs were exercised
    if let Some(st) = model.slot(spec.slot).and_then(|s| s.votes.get(&spec.signer)) {
        let mut have: Vec<String> = Vec::new();
        if let Some(b) = st.notar {
            have.push(if spec.kind.has_hash() && b == spec.block { "N=".into() } else { "N".into() });
        }
        for b in &st.nf {
            have.push(if spec.kind.has_hash() && *b == spec.block { "NF=".into() } else { "NF".into() });
        }
        if st.skip {
            have.push("S".into());
        }
        if st.sf {
            have.push("SF".into());
        }
        if st.fin {
            have.push("F".into());
        }
        for h in have {
            pairs.insert(format!("pair:{h}->{}", spec.kind.short()));
        }
    }
    let got = match verdict {
        Ok(()) => "Ok".to_string(),
        Err(AddVoteError::SlotOutOfBounds) => "SlotOutOfBounds".into(),
        Err(AddVoteError::Duplicate) => "Duplicate".into(),
        Err(e @ AddVoteError::Slashable(_)) => format!("Slashable({:?})", offence_of(e).unwrap()),
    };
    let ok = match (predicted, verdict) {
        (Expect::Ok, Ok(())) => true,
        (Expect::OutOfBounds, Err(AddVoteError::SlotOutOfBounds)) => true,
        (Expect::Duplicate, Err(AddVoteError::Duplicate)) => true,
        (Expect::Slashable(kinds), Err(e @ AddVoteError::Slashable(_))) => kinds.contains(&offence_of(e).unwrap()),
        _ => false,
    };
    out.checks += 1;
    if !ok {
        let class = match (predicted, verdict) {
            (Expect::Ok, Err(_)) => "legitimate-vote-refused",
            (Expect::Slashable(_), Ok(())) => "conflicting-vote-accepted",
            (Expect::Slashable(_), Err(AddVoteError::Slashable(_))) => "wrong-offence-kind",
            (Expect::Slashable(_), Err(_)) => "conflict-not-reported",
            (Expect::Duplicate, Ok(())) => "repeat-counted-again",
            (Expect::Duplicate, Err(AddVoteError::Slashable(_))) => "repeat-reported-as-offence",
            (Expect::OutOfBounds, _) | (_, Err(AddVoteError::SlotOutOfBounds)) => "bounds",
            _ => "other",
        };
        let st = model.slot(spec.slot).and_then(|s| s.votes.get(&spec.signer)).cloned().unwrap_or_default();
        out.violate(
            format!("C04/{class}/{}", spec.kind.short()),
            format!(
                "step {step}: vote {spec:?} — pool said {got}, statement prescribes {predicted:?}; accepted so far from this validator in this slot: {st:?}; watermark {} finalized {}",
                model.watermark, model.highest_finalized
            ),
        );
    }
}

pub struct C04;

impl Property for C04 {
    type Case = Case;
    fn id(&self) -> &'static str {
        "C04"
    }
    fn cases(&self, tier: Tier) -> u32 {
        tier.pick(12_000, 400_000)
    }
    fn rule(&self) -> String {
        "cases: 1..=6 validators, 1-3 slots (optionally one at the far-future bound 35999/36000+), 2-3 block hashes, \
         sequences of validly signed votes of all five kinds in generated order (duplicates, every conflicting and every \
         legitimate pair in both orders), with finalisation by votes moving the lower bound. Oracle: decision table \
         written from the statement (SlotOutOfBounds | Slashable(any applicable kind) | Duplicate | Ok). Non-trivial: \
         the sequence contains at least one vote offered by a validator that already has an accepted vote in that slot; \
         evidence lists the (accepted kind -> offered kind) pairs hit ('=' marks same block)."
            .into()
    }
    fn assumptions(&self) -> Vec<String> {
        vec![
            "slashable takes priority over duplicate when both apply (statement: a conflicting vote is reported as that offence)".into(),
            "when two offence kinds apply either is accepted".into(),
        ]
    }
    fn strategy(&self, _tier: Tier) -> BoxedStrategy<Case> {
        prop_oneof![
            3 => case_strategy(4, 40, 0, false),
            1 => case_strategy(6, 60, 1, true),
        ]
        .boxed()
    }
    fn regressions(&self) -> Vec<Case> {
        // every ordered pair of kinds for one validator (same and different blocks)
        let kinds = [(VKind::Notar, 0u8), (VKind::Notar, 1), (VKind::NotarFallback, 0), (VKind::NotarFallback, 1), (VKind::Skip, 0), (VKind::SkipFallback, 0), (VKind::Final, 0)];
        let mut cases = Vec::new();
        for a in kinds {
            for b in kinds {
                cases.push(Case {
                    stakes: vec![1, 1, 1, 1],
                    own: 0,
                    slots: vec![1],
                    ops: vec![
                        Op::Vote { signer: 0, slot: 0, kind: a.0, block: a.1 },
                        Op::Vote { signer: 0, slot: 0, kind: b.0, block: b.1 },
                    ],
                });
            }
        }
        cases
    }
    fn run(&self, case: &Case) -> Outcome {
        run_case(case, Mode::Admission)
    }
}
