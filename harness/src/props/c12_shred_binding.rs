//! C12 — shreds are bound to leader, slot, slice and position; equivocation is detected.

use alpenglow::consensus::{AddShredError, Blockstore, BlockstoreEvent};
use alpenglow::shredder::{ShredValidationError, ValidatedShred};
use alpenglow::types::Slot;
use proptest::prelude::*;
use serde::{Deserialize, Serialize};

use crate::engine::{Outcome, Property, Tier, catch, panic_msg, panic_site, pick_idx};
use crate::fixtures::blocks::{Store, shred_slice, tx_data};
use crate::fixtures::shreds::{ShredParts, make_slice, prng_bytes, slice_index};
use crate::fixtures::{block_on, keys};

#[derive(Clone, Debug, Serialize, Deserialize)]
pub enum FieldMut {
    Slot(i8),
    SliceIndex(i8),
    IsLast,
    ShredIndex(u8),
    DataByte(u16, u8),
    DataTruncate(u8),
    ProofElem(u8, u8),
    ProofDrop,
    ProofExtend(u8),
    SigByte(u8, u8),
    /// signature taken from a shred of another slice of this leader
    SigOfOtherSlice,
    Tag,
    /// payload and proof of another shred index of the same slice (keeps the claimed index)
    PayloadOfIndex(u8),
}

impl FieldMut {
    fn class(&self) -> &'static str {
        match self {
            FieldMut::Slot(_) => "slot",
            FieldMut::SliceIndex(_) => "slice-index",
            FieldMut::IsLast => "last-flag",
            FieldMut::ShredIndex(_) => "shred-index",
            FieldMut::DataByte(..) | FieldMut::DataTruncate(_) => "payload",
            FieldMut::ProofElem(..) | FieldMut::ProofDrop | FieldMut::ProofExtend(_) => "proof",
            FieldMut::SigByte(..) | FieldMut::SigOfOtherSlice => "signature",
            FieldMut::Tag => "tag",
            FieldMut::PayloadOfIndex(_) => "payload-of-other-index",
        }
    }
}

#[derive(Clone, Copy, Debug, PartialEq, Eq, Serialize, Deserialize)]
pub enum CacheMode {
    None,
    Identical,
    /// commitment of another version of the slice (other payload) signed by the same leader
    OtherPayload,
    /// commitment of the same payload with the other last flag
    OtherLastFlag,
}

#[derive(Clone, Debug, Serialize, Deserialize)]
pub struct Case {
    pub slot: u64,
    pub slice: u16,
    pub is_last: bool,
    pub data_len: u16,
    pub seed: u64,
    pub leader: u8,
    pub which: u8,
    pub muts: Vec<FieldMut>,
    pub cache: CacheMode,
    pub other_key: bool,
    /// store scenario: deliveries of (shred index, optional mutation) through the node's path
    pub deliveries: Vec<(u8, Option<FieldMut>)>,
    /// store scenario: a conflicting version is delivered too (which, position raw)
    pub conflict: Option<(bool, u16)>,
}

pub struct C12;

fn field_mut() -> impl Strategy<Value = FieldMut> {
    prop_oneof![
        2 => prop_oneof![Just(1i8), Just(-1i8), Just(4i8)].prop_map(FieldMut::Slot),
        2 => prop_oneof![Just(1i8), Just(-1i8)].prop_map(FieldMut::SliceIndex),
        2 => Just(FieldMut::IsLast),
        2 => (0u8..64).prop_map(FieldMut::ShredIndex),
        2 => (any::<u16>(), 1u8..=255).prop_map(|(p, x)| FieldMut::DataByte(p, x)),
        1 => (1u8..4).prop_map(FieldMut::DataTruncate),
        2 => (0u8..6, 1u8..=255).prop_map(|(p, x)| FieldMut::ProofElem(p, x)),
        1 => Just(FieldMut::ProofDrop),
        1 => any::<u8>().prop_map(FieldMut::ProofExtend),
        2 => (0u8..64, 1u8..=255).prop_map(|(p, x)| FieldMut::SigByte(p, x)),
        1 => Just(FieldMut::SigOfOtherSlice),
        2 => Just(FieldMut::Tag),
        1 => (0u8..64).prop_map(FieldMut::PayloadOfIndex),
    ]
}

fn apply(m: &FieldMut, p: &mut ShredParts, all: &[ShredParts], other_sig: &[u8]) {
    match m {
        FieldMut::Slot(d) => p.slot = p.slot.wrapping_add(*d as i64 as u64),
        FieldMut::SliceIndex(d) => p.slice_index = (p.slice_index as i64 + *d as i64).rem_euclid(1024) as u64,
        FieldMut::IsLast => p.is_last ^= 1,
        FieldMut::ShredIndex(i) => p.shred_index = *i as u64,
        FieldMut::DataByte(pos, x) => {
            if !p.data.is_empty() {
                let i = pick_idx(*pos, p.data.len());
                p.data[i] ^= *x;
            }
        }
        FieldMut::DataTruncate(k) => {
            let l = p.data.len().saturating_sub(*k as usize * 2);
            p.data.truncate(l);
        }
        FieldMut::ProofElem(i, x) => {
            if !p.proof.is_empty() {
                let i = *i as usize % p.proof.len();
                p.proof[i][7] ^= *x;
            }
        }
        FieldMut::ProofDrop => {
            p.proof.pop();
        }
        FieldMut::ProofExtend(b) => p.proof.push([*b; 32]),
        FieldMut::SigByte(i, x) => p.sig[*i as usize] ^= *x,
        FieldMut::SigOfOtherSlice => p.sig = other_sig.to_vec(),
        FieldMut::Tag => p.coding = !p.coding,
        FieldMut::PayloadOfIndex(j) => {
            let o = &all[*j as usize];
            p.data = o.data.clone();
            p.proof = o.proof.clone();
        }
    }
}

impl Property for C12 {
    type Case = Case;
    fn id(&self) -> &'static str {
        "C12"
    }
    fn cases(&self, tier: Tier) -> u32 {
        tier.pick(8_000, 250_000)
    }
    fn rule(&self) -> String {
        "cases: a slice (slot, slice index, last flag, payload) signed by one of four leaders, one of its 64 shreds, 0..=3 \
         wire-level mutations (slot, slice index, last flag, shred index, payload bytes / length, proof element / length, \
         signature bytes, signature of another slice, data/coding tag, payload+proof of another index), validated with no \
         cached commitment, the identical one, or one of a conflicting version (other payload / other last flag) signed by \
         the same leader, optionally against another leader's key; plus a store scenario in which genuine and mutated \
         shreds of a correct leader's slice (and optionally a conflicting version) are offered through the node's \
         validate-then-store path in generated order. Oracle: accepted => header, root and position are exactly what the \
         leader signed (known by construction: any change to slot / slice / flag / index / payload / proof must be \
         refused; an unchanged shred is accepted; under a conflicting cached commitment a genuine shred gives Equivocation); \
         conflicting versions offered to the store give Equivocation and exactly one InvalidBlock in either order; nothing \
         that passed validation for a correct leader's slice ever yields InvalidBlock / Equivocation / InvalidShred, and the \
         slice still reconstructs. Non-trivial: a mutated shred that still decodes."
            .into()
    }
    fn assumptions(&self) -> Vec<String> {
        vec![
            "Ed25519 unforgeability and SHA-256 collision resistance".into(),
            "the data/coding tag and signature bytes are not among the fields the statement requires to be bound; they are covered by the no-false-flag clause".into(),
        ]
    }
    fn strategy(&self, _tier: Tier) -> BoxedStrategy<Case> {
        (
            (prop_oneof![3 => 4u64..100, 1 => any::<u64>()], 0u16..1024, any::<bool>(), prop_oneof![0u16..200, 0u16..4000], any::<u64>(), 0u8..4, 0u8..64),
            prop::collection::vec(field_mut(), 0..=3),
            prop_oneof![Just(CacheMode::None), Just(CacheMode::Identical), Just(CacheMode::OtherPayload), Just(CacheMode::OtherLastFlag)],
            prop::bool::weighted(0.1),
            prop::collection::vec((0u8..64, prop::option::weighted(0.3, field_mut())), 0..90),
            prop::option::weighted(0.3, (any::<bool>(), any::<u16>())),
        )
            .prop_map(|((slot, slice, is_last, data_len, seed, leader, which), muts, cache, other_key, deliveries, conflict)| Case {
                slot,
                slice,
                is_last,
                data_len,
                seed,
                leader,
                which,
                muts,
                cache,
                other_key,
                deliveries,
                conflict,
            })
            .boxed()
    }
    fn run(&self, case: &Case) -> Outcome {
        let mut out = Outcome::default();
        if let Err(p) = catch(|| run(case, &mut out)) {
            out.violate(format!("C12/panic/{}/{}", panic_site(&p), panic_msg(&p)), p);
        }
        // one case in 64 additionally runs the node-level equivocation scenario (full nodes)
        if !out.failed() && case.seed % 64 == 0 {
            let o = node_equivocation_check(case.seed, case.seed % 128 == 0);
            out.checks += o.checks;
            out.labels.extend(o.labels);
            out.violations.extend(o.violations);
        }
        out
    }
    fn regressions(&self) -> Vec<Case> {
        // always exercise the node-level scenario once per run
        vec![Case { slot: 5, slice: 0, is_last: true, data_len: 10, seed: 0, leader: 1, which: 0, muts: vec![], cache: CacheMode::None, other_key: false, deliveries: vec![], conflict: None }]
    }
}

fn run(case: &Case, out: &mut Outcome) {
    let leader = case.leader as usize;
    let pk = keys().sig[leader].to_pk();
    let other_pk = keys().sig[leader + 7].to_pk();
    let data = tx_data(&[alpenglow::Transaction(prng_bytes(case.seed, case.data_len as usize % 500))]);
    let parent = Some((0, 0));
    let slice = make_slice(case.slot, case.slice as usize, case.is_last, parent, data.clone());
    let genuine = shred_slice(&slice, leader);
    // conflicting versions the same leader signed
    let mut s2 = slice.clone();
    s2.data = tx_data(&[alpenglow::Transaction(prng_bytes(case.seed ^ 1, 40))]);
    let other_payload = shred_slice(&s2, leader);
    let mut s3 = slice.clone();
    s3.is_last = !s3.is_last;
    let other_flag = shred_slice(&s3, leader);
    let mut s4 = slice.clone();
    s4.slice_index = slice_index((case.slice as usize + 1) % 1024);
    let other_slice = shred_slice(&s4, leader);
    let all_parts: Vec<ShredParts> = genuine.iter().map(|s| ShredParts::of(s.as_shred())).collect();
    let other_sig = ShredParts::of(other_slice[0].as_shred()).sig;

    // ---------- part A: validation of one (possibly mutated) shred
    let which = case.which as usize;
    let mut parts = all_parts[which].clone();
    for m in &case.muts {
        out.label(format!("mut={}", m.class()));
        apply(m, &mut parts, &all_parts, &other_sig);
    }
    let cached = match case.cache {
        CacheMode::None => None,
        CacheMode::Identical => Some(genuine[(which + 1) % 64].commitment()),
        CacheMode::OtherPayload => Some(other_payload[0].commitment()),
        CacheMode::OtherLastFlag => Some(other_flag[0].commitment()),
    };
    out.label(format!("cache={:?}", case.cache));
    // every version of a slice this leader signed in this case; a shred is authentic iff it is,
    // header + position + payload + proof, a shred of one of them
    let versions: Vec<(&str, &Vec<ValidatedShred>)> = vec![("genuine", &genuine), ("other-payload", &other_payload), ("other-flag", &other_flag), ("other-slice", &other_slice)];
    let mut matched: Option<usize> = None;
    for (vi, (_, v)) in versions.iter().enumerate() {
        if parts.shred_index >= 64 {
            break;
        }
        let p = ShredParts::of(v[parts.shred_index as usize].as_shred());
        if p.slot == parts.slot && p.slice_index == parts.slice_index && p.is_last == parts.is_last && p.data == parts.data && p.proof == parts.proof {
            matched = Some(vi);
            break;
        }
    }
    // the proof-only check of the public shred API: every shred of every slice (not only slice 0)
    // carries a path that verifies under its slice root at its index in the slice; the offered
    // (possibly altered) shred verifies under the genuine root iff payload, index and path are
    // those of a genuine shred of this slice
    {
        let g = genuine[which].as_shred();
        let root = genuine[which].slice_root().clone();
        out.checks += 1;
        if !g.verify_path_only(&root) {
            out.violate("C12/genuine-path-refused", format!("slot {} slice {} shred {which}: Shred::verify_path_only rejects the leader's own shred", case.slot, case.slice));
        }
        if let Ok(m) = parts.to_shred() {
            let same_as_genuine = parts.shred_index < 64 && {
                let p = &all_parts[parts.shred_index as usize];
                p.data == parts.data && p.proof == parts.proof
            };
            out.checks += 1;
            let ok = m.verify_path_only(&root);
            if ok && !same_as_genuine {
                out.violate("C12/altered-path-accepted", format!("muts {:?}: verify_path_only accepts payload/index/path that are not the leader's", case.muts));
            }
            if !ok && same_as_genuine {
                out.violate("C12/genuine-path-refused", format!("muts {:?}: payload, index and path are genuine but verify_path_only rejects", case.muts));
            }
        }
    }
    if let Ok(shred) = parts.to_shred() {
        out.nontrivial = !case.muts.is_empty();
        let key = if case.other_key { &other_pk } else { &pk };
        let res = ValidatedShred::try_new(shred, cached.as_ref(), key);
        out.checks += 1;
        let describe = || format!("muts {:?}, cache {:?}, other key {}: {:?}", case.muts, case.cache, case.other_key, res.as_ref().err());
        match matched {
            None => {
                if res.is_ok() {
                    let field = case.muts.iter().map(|m| m.class()).collect::<Vec<_>>().join("+");
                    out.violate(format!("C12/accepted-although-altered/{field}"), describe());
                }
            }
            Some(vi) => {
                let v = versions[vi].1;
                let v_sig = ShredParts::of(v[0].as_shred()).sig;
                let cache_hit = cached.as_ref().is_some_and(|c| *c == v[0].commitment());
                let sig_ok = parts.sig == v_sig && !case.other_key;
                if cache_hit {
                    // identical commitment cached: verification may be skipped or repeated
                    if sig_ok && res.is_err() {
                        out.violate("C12/genuine-shred-refused", describe());
                    }
                } else if !sig_ok {
                    if res.is_ok() {
                        out.violate(if case.other_key { "C12/accepted-under-another-leaders-key" } else { "C12/accepted-with-wrong-signature" }, describe());
                    }
                } else if cached.is_none() {
                    if res.is_err() {
                        out.violate("C12/genuine-shred-refused", describe());
                    }
                } else {
                    // validly signed, but another commitment is cached: equivocation, never silent acceptance
                    match &res {
                        Err(ShredValidationError::Equivocation) => out.label("equivocation-reported-at-validation"),
                        Err(e) => out.violate("C12/equivocation-not-reported/wrong-error", format!("{e:?}; {}", describe())),
                        Ok(_) => out.violate("C12/equivocation-silently-accepted", describe()),
                    }
                }
            }
        }
    }

    // ---------- part B / C: the store, fed through the node's validate-then-store path
    let mut st = Store::new();
    let slot = Slot::new(case.slot);
    let sidx = slice_index(case.slice as usize);
    let mut invalid = 0;
    let mut conflict_delivered = false;
    let conflict_at = case.conflict.map(|(flag, pos)| (flag, pick_idx(pos, case.deliveries.len() + 1)));
    let n_del = case.deliveries.len();
    for d in 0..=n_del {
        if let Some((flag, at)) = conflict_at
            && at == d
        {
            // the conflicting version reaches the store the way a second dissemination path would:
            // validated on its own (no cache), then stored
            let v = if flag { &other_flag } else { &other_payload };
            let res = block_on(st.store.add_shred_from_dissemination(v[(d * 7) % 64].clone()));
            conflict_delivered = true;
            for e in st.drain() {
                if matches!(e, BlockstoreEvent::InvalidBlock(_)) {
                    invalid += 1;
                }
            }
            let _ = res;
        }
        if d == n_del {
            break;
        }
        let (i, m) = &case.deliveries[d];
        let mut parts = all_parts[*i as usize].clone();
        if let Some(m) = m {
            apply(m, &mut parts, &all_parts, &other_sig);
        }
        let Ok(shred) = parts.to_shred() else { continue };
        // a shred whose header no longer names this slot / slice would be looked up elsewhere
        if parts.slot != case.slot || parts.slice_index != case.slice as u64 {
            continue;
        }
        // no-false-flag scenario: the node's path (cached commitment looked up per shred);
        // equivocation scenario: each version validated on its own, the store must notice
        let cached = if conflict_at.is_some() { None } else { st.store.cached_commitment(slot, sidx) };
        let Ok(v) = ValidatedShred::try_new(shred, cached.as_ref(), &pk) else { continue };
        let res = block_on(st.store.add_shred_from_dissemination(v));
        let events = st.drain();
        let flagged = events.iter().any(|e| matches!(e, BlockstoreEvent::InvalidBlock(_)));
        if flagged {
            invalid += 1;
        }
        out.checks += 1;
        if !conflict_delivered {
            // correct leader so far: nothing that passed validation may implicate it
            if flagged || matches!(res, Err(AddShredError::Equivocation | AddShredError::InvalidShred)) {
                let class = m.as_ref().map(|m| m.class()).unwrap_or("genuine");
                out.violate(
                    format!("C12/correct-leader-flagged/{class}"),
                    format!("delivery {d}: shred {i} with mutation {m:?} passed validation, the store answered {res:?}{}", if flagged { " and announced InvalidBlock" } else { "" }),
                );
                return;
            }
            if m.is_some() {
                out.label("mutated-shred-passed-validation");
            }
        }
    }
    if conflict_at.is_some() {
        // both versions were offered: equivocation must be reported, once — unless the store never
        // saw the genuine version at all
        let saw_genuine = st.store.cached_commitment(slot, sidx).is_some();
        if saw_genuine && n_del > 0 {
            let genuine_stored = case.deliveries.iter().any(|(_, m)| m.is_none() || matches!(m, Some(FieldMut::Tag) | Some(FieldMut::SigByte(..))));
            let genuine_stored = genuine_stored && case.deliveries.iter().any(|(_, m)| m.is_none());
            if genuine_stored {
                out.check(invalid == 1, if invalid == 0 { "C12/equivocation-not-flagged-by-store" } else { "C12/invalid-block-announced-twice" }, || {
                    format!("conflicting version ({}) offered at position {:?} of {n_del} deliveries: {invalid} InvalidBlock events", if conflict_at.unwrap().0 { "other last flag" } else { "other payload" }, conflict_at.unwrap().1)
                });
                out.label("store-equivocation-scenario");
            }
        }
    } else {
        out.check(invalid == 0, "C12/correct-leader-flagged/at-end", || format!("{invalid} InvalidBlock events"));
        if case.deliveries.iter().any(|(_, m)| m.is_some()) {
            out.label("store-no-false-flag-scenario");
        }
    }
}

/// Node-level clause: a full node that is shown two validly signed versions of a slice must
/// report the leader (invalid-block notice => it skips instead of notarising either version).
pub fn node_equivocation_check(seed: u64, other_flag: bool) -> Outcome {
    use alpenglow::consensus::ConsensusMessage;
    use crate::fixtures::net::with_runtime;
    use crate::fixtures::nsim::{Diss, Iface, Switch, addr, advance, start_node};
    use crate::fixtures::votes::{CKind, VKind, cert_kind, classify_vote};

    let r = catch(|| {
        with_runtime(true, seed, async move {
            let mut out = Outcome::default();
            let n = 4usize;
            let byz = 1usize; // leader of window 1 (slots 4..=7)
            let stakes = vec![1u64; n];
            let live: Vec<usize> = (0..n).filter(|i| *i != byz).collect();
            let switch = Switch::new(Box::new(|_f, _t, _i, _c| Some(20)));
            let nodes: Vec<_> = live.iter().map(|i| start_node(&switch, &stakes, *i, Diss::Rotor)).collect();
            // wait until slot 3 is notarised everywhere (ParentReady(4) follows)
            let mut h3 = None;
            let mut waited = 0;
            let mut log = Vec::new();
            while waited < 8000 && h3.is_none() {
                advance(50).await;
                waited += 50;
                log.extend(switch.take_consensus_log());
                for e in &log {
                    if let Ok(ConsensusMessage::Cert(c)) = alpenglow::network::deserialize::<ConsensusMessage>(&e.bytes)
                        && c.slot().inner() == 3
                        && cert_kind(&c) == CKind::Notar
                    {
                        h3 = c.block_hash().cloned();
                    }
                }
            }
            let Some(h3) = h3 else {
                out.label("node-scenario=chain-did-not-start");
                return out;
            };
            advance(60).await;
            // two versions of slice 0 of slot 4 signed by the Byzantine leader
            let parent = Some((alpenglow::types::Slot::new(3), h3));
            let mut a = make_slice(4, 0, true, None, tx_data(&[]));
            a.parent = parent.clone();
            let mut b = a.clone();
            if other_flag {
                b.is_last = false;
            } else {
                b.data = tx_data(&[alpenglow::Transaction(vec![7; 9])]);
            }
            let sa = shred_slice(&a, byz);
            let sb = shred_slice(&b, byz);
            let bytes = |s: &ValidatedShred| wincode::serialize(s.as_shred()).unwrap_or_default();
            for v in &live {
                let to = addr(Iface::Disseminator, *v);
                switch.inject(to, bytes(&sa[0]));
                switch.inject(to, bytes(&sb[1]));
                for s in sa.iter().skip(2) {
                    switch.inject(to, bytes(s));
                }
            }
            advance(400).await;
            log.extend(switch.take_consensus_log());
            let mut notar: std::collections::BTreeSet<usize> = Default::default();
            let mut skip: std::collections::BTreeSet<usize> = Default::default();
            for e in &log {
                if let Ok(ConsensusMessage::Vote(v)) = alpenglow::network::deserialize::<ConsensusMessage>(&e.bytes) {
                    let c = classify_vote(&v);
                    if c.slot == 4 {
                        match c.kind {
                            VKind::Notar => {
                                notar.insert(c.signer);
                            }
                            VKind::Skip => {
                                skip.insert(c.signer);
                            }
                            _ => {}
                        }
                    }
                }
            }
            out.checks += 1;
            out.nontrivial = true;
            out.label("node-scenario=equivocating-leader");
            if !notar.is_empty() || skip.len() < live.len() {
                out.violate(
                    "C12/node/equivocation-not-reported",
                    format!(
                        "every correct node received a shred of version A and then a shred of a conflicting version ({}) of slice 0 of slot 4 before the block was complete; nodes that notarised a version: {notar:?}, nodes that skipped: {skip:?} (expected: all of {live:?} skip)",
                        if other_flag { "other last flag" } else { "other payload" }
                    ),
                );
            }
            for nd in &nodes {
                nd.cancel.cancel();
                nd.task.abort();
            }
            out
        })
    });
    match r {
        Ok(o) => o,
        Err(p) => {
            let mut o = Outcome::default();
            o.violate(format!("C12/node/panic/{}/{}", panic_site(&p), panic_msg(&p)), p);
            o
        }
    }
}
