//! C17 — committee sampling always yields a well-formed, stake-respecting committee.

use alpenglow::ValidatorInfo;
use alpenglow::disseminator::rotor::sampling_strategy::{
    AllSameSampler, DecayingAcceptanceSampler, FaitAccompli1Sampler, FaitAccompli2Sampler, PartitionSampler, QuorumSamplingStrategy,
    SamplingStrategy, StakeWeightedSampler, TurbineSampler, UniformSampler,
};
use proptest::prelude::*;
use rand::SeedableRng;
use rand::rngs::StdRng;
use serde::{Deserialize, Serialize};

use crate::engine::{Outcome, Property, Tier, catch, is_known, panic_msg};

#[derive(Clone, Copy, Debug, PartialEq, Eq, Serialize, Deserialize)]
pub enum Sampler {
    AllSame,
    Uniform,
    StakeWeighted,
    Turbine,
    DecayingSingle,
    IidUniform,
    IidStakeWeighted,
    DecayingQuorum,
    Partition,
    Fa1Partition,
    Fa1StakeWeighted,
    Fa2,
}

#[derive(Clone, Debug, Serialize, Deserialize)]
pub enum Stakes {
    Equal { n: u16, s: u32 },
    /// n equal validators and a committee size that is a multiple of n (k = n*m): every
    /// validator sits exactly on a seat boundary
    EqualDividing { n: u8, m: u8, s: u32 },
    Small { v: Vec<u8> },
    HeavyTail { n: u16, seed: u64 },
    Dominant { n: u16, pct: u8 },
    /// stakes chosen so that some validators hold exactly m/k of the total, others one unit off
    Boundary { k_units: Vec<u8>, off: Vec<i8>, scale: u16 },
    /// token-scale stakes: v[i] * 10^unit_log10 (total below 2^64, but stake * k beyond it)
    Large { v: Vec<u8>, unit_log10: u8 },
}

#[derive(Clone, Debug, Serialize, Deserialize)]
pub struct Case {
    pub sampler: Sampler,
    pub stakes: Stakes,
    pub k: u16,
    pub seed: u64,
    pub draws: u8,
    pub max_samples_x10: u16,
    pub fanout: u8,
}

pub struct C17;

fn stake_vec(s: &Stakes, k: usize) -> Vec<u64> {
    match s {
        Stakes::Equal { n, s } => vec![(*s as u64).max(1); (*n as usize).max(1)],
        Stakes::EqualDividing { n, s, .. } => vec![(*s as u64).max(1); (*n as usize).max(1)],
        Stakes::Small { v } => {
            if v.is_empty() {
                vec![1]
            } else {
                v.iter().map(|x| (*x as u64).max(1)).collect()
            }
        }
        Stakes::HeavyTail { n, seed } => {
            let r = crate::fixtures::shreds::prng_bytes(*seed, (*n as usize).max(1) * 2);
            r.chunks(2).map(|c| if c[0] < 20 { 1000 + c[1] as u64 * 50 } else { 1 + (c[1] as u64 % 20) }).collect()
        }
        Stakes::Large { v, unit_log10 } => {
            let unit = 10u64.pow((*unit_log10 as u32).clamp(9, 16));
            let v: Vec<u64> = v.iter().take(15).map(|x| (*x as u64).clamp(1, 100) * unit).collect();
            if v.is_empty() {
                vec![unit]
            } else {
                v
            }
        }
        Stakes::Dominant { n, pct } => {
            let n = (*n as usize).max(2);
            let rest = (n - 1) as u64;
            let mut v = vec![100 - (*pct as u64).min(99); n];
            v[0] = (*pct as u64).min(99) * rest;
            v
        }
        Stakes::Boundary { k_units, off, scale } => {
            // total = k * scale * c; validator i holds k_units[i] * scale * c / ... built so that
            // stake_i * k / total is an integer for off = 0
            let k = k.max(1) as u64;
            let units: Vec<u64> = k_units.iter().map(|u| (*u as u64 % 4) + 1).collect();
            let sum_units: u64 = units.iter().sum();
            // choose per-unit stake U so that total = sum_units * U is a multiple of k: U = k * scale
            let u = k * (*scale as u64).max(1);
            let mut v: Vec<u64> = units.iter().map(|x| x * u).collect();
            // stake_i * k / total = x_i * k / sum_units: integral when sum_units divides x_i * k; perturb some by +-1
            for (i, o) in off.iter().enumerate() {
                if i < v.len() {
                    v[i] = (v[i] as i64 + *o as i64).max(1) as u64;
                }
            }
            let _ = sum_units;
            v
        }
    }
}

fn infos(stakes: &[u64]) -> Vec<ValidatorInfo> {
    // addresses / keys are irrelevant for sampling; reuse one key for all (cheap for n = 2000)
    let k = crate::fixtures::keys();
    let pk = k.sig[0].to_pk();
    let vpk = k.vote[0].to_pk();
    stakes
        .iter()
        .enumerate()
        .map(|(i, s)| ValidatorInfo {
            id: alpenglow::ValidatorIndex::new(i as u64),
            stake: alpenglow::Stake::new(*s),
            pubkey: pk,
            voting_pubkey: vpk,
            all2all_address: alpenglow::network::localhost_ip_sockaddr(1),
            disseminator_address: alpenglow::network::localhost_ip_sockaddr(1),
            repair_requester_address: alpenglow::network::localhost_ip_sockaddr(1),
            repair_responder_address: alpenglow::network::localhost_ip_sockaddr(1),
        })
        .collect()
}

enum Built {
    Single(Box<dyn Fn(&mut StdRng) -> usize>),
    Quorum(Box<dyn Fn(&mut StdRng) -> Vec<usize>>, usize),
}

fn build(case: &Case, v: Vec<ValidatorInfo>) -> Built {
    let k = case.k as usize;
    let idx = |x: alpenglow::ValidatorIndex| x.as_usize();
    let q = |f: Box<dyn Fn(&mut StdRng) -> Vec<alpenglow::ValidatorIndex>>, size: usize| {
        Built::Quorum(Box::new(move |r| f(r).into_iter().map(|x| x.as_usize()).collect()), size)
    };
    match case.sampler {
        Sampler::AllSame => {
            let s = AllSameSampler(v[0].clone());
            Built::Single(Box::new(move |r| idx(s.sample(r))))
        }
        Sampler::Uniform => {
            let s = UniformSampler::new(v);
            Built::Single(Box::new(move |r| idx(s.sample(r))))
        }
        Sampler::StakeWeighted => {
            let s = StakeWeightedSampler::new(v);
            Built::Single(Box::new(move |r| idx(s.sample(r))))
        }
        Sampler::Turbine => {
            let s = TurbineSampler::new_with_fanout(v, (case.fanout as usize).max(1));
            Built::Single(Box::new(move |r| idx(s.sample(r))))
        }
        Sampler::DecayingSingle => {
            let s = DecayingAcceptanceSampler::new(v, case.max_samples_x10 as f64 / 10.0, k);
            Built::Single(Box::new(move |r| {
                s.reset();
                idx(s.sample(r))
            }))
        }
        Sampler::IidUniform => {
            let s = UniformSampler::new(v).into_quorum_strategy(k);
            let size = s.quorum_size();
            q(Box::new(move |r| s.sample_quorum(r)), size)
        }
        Sampler::IidStakeWeighted => {
            let s = StakeWeightedSampler::new(v).into_quorum_strategy(k);
            let size = s.quorum_size();
            q(Box::new(move |r| s.sample_quorum(r)), size)
        }
        Sampler::DecayingQuorum => {
            let s = DecayingAcceptanceSampler::new(v, case.max_samples_x10 as f64 / 10.0, k);
            let size = s.quorum_size();
            q(Box::new(move |r| s.sample_quorum(r)), size)
        }
        Sampler::Partition => {
            let s = PartitionSampler::new(v, k);
            let size = s.quorum_size();
            q(Box::new(move |r| s.sample_quorum(r)), size)
        }
        Sampler::Fa1Partition => {
            let s = FaitAccompli1Sampler::new_with_partition_fallback(v, k as u64);
            let size = s.quorum_size();
            q(Box::new(move |r| s.sample_quorum(r)), size)
        }
        Sampler::Fa1StakeWeighted => {
            let s = FaitAccompli1Sampler::new_with_stake_weighted_fallback(v, k as u64);
            let size = s.quorum_size();
            q(Box::new(move |r| s.sample_quorum(r)), size)
        }
        Sampler::Fa2 => {
            let s = FaitAccompli2Sampler::new(v, k as u64);
            let size = s.quorum_size();
            q(Box::new(move |r| s.sample_quorum(r)), size)
        }
    }
}

impl Property for C17 {
    type Case = Case;
    fn id(&self) -> &'static str {
        "C17"
    }
    fn cases(&self, tier: Tier) -> u32 {
        tier.pick(60_000, 1_500_000)
    }
    fn rule(&self) -> String {
        "cases: each of the twelve shipped strategies (5 single-validator, 7 committee) over 1..2000 validators (<= 40 for \
         the cubic Turbine sampler) with stake patterns equal / small integers / heavy-tailed / one dominant / token-scale (up to 1e18 per validator, stake*k beyond 2^64) / boundary \
         (stakes exactly on m/k of the total and one unit off), committee sizes 1..200 (64 emphasised), several seeded \
         draws. Oracle: construction and sampling do not panic; committee length = quorum_size() = configured k; members \
         < n; same validator set + same seed => same committee (same instance twice, and a second instance); \
         Fait-Accompli: seats(v) >= floor(stake_v * k / total) in exact integer arithmetic and a validator exactly on a \
         seat boundary gets exactly its floor; decaying acceptance: seats(v) <= ceil(max_samples). Non-trivial: unequal \
         stakes and some validator's floor >= 1 (committee strategies), or a draw from an unequal distribution (single). \
         Known construction panics are keyed by (strategy, panic message); inputs that hit them are counted as excluded."
            .into()
    }
    fn assumptions(&self) -> Vec<String> {
        vec![
            "decaying-acceptance cases keep k <= n*cap/2 with bounded stake ratios so that the documented exhaustion panic (100 000 rejections) has negligible probability".into(),
            "statistical quality of the samplers is not a listed property and is not tested".into(),
        ]
    }
    fn strategy(&self, _tier: Tier) -> BoxedStrategy<Case> {
        let sampler = prop_oneof![
            1 => Just(Sampler::AllSame),
            1 => Just(Sampler::Uniform),
            2 => Just(Sampler::StakeWeighted),
            2 => Just(Sampler::Turbine),
            1 => Just(Sampler::DecayingSingle),
            1 => Just(Sampler::IidUniform),
            2 => Just(Sampler::IidStakeWeighted),
            3 => Just(Sampler::DecayingQuorum),
            4 => Just(Sampler::Partition),
            5 => Just(Sampler::Fa1Partition),
            5 => Just(Sampler::Fa1StakeWeighted),
            5 => Just(Sampler::Fa2),
        ];
        let n = prop_oneof![3 => 1u16..=12, 3 => 1u16..=100, 2 => 100u16..=2000];
        let stakes = prop_oneof![
            2 => (n.clone(), 1u32..1_000_000).prop_map(|(n, s)| Stakes::Equal { n, s }),
            2 => (1u8..=100, 1u8..=4, 1u32..1_000_000).prop_map(|(n, m, s)| Stakes::EqualDividing { n, m, s }),
            2 => prop::collection::vec(1u8..=20, 1..60).prop_map(|v| Stakes::Small { v }),
            2 => (n.clone(), any::<u64>()).prop_map(|(n, seed)| Stakes::HeavyTail { n, seed }),
            1 => (n, 50u8..99).prop_map(|(n, pct)| Stakes::Dominant { n, pct }),
            2 => (prop::collection::vec(prop_oneof![1u8..=100, Just(1u8), Just(100u8)], 1..=15), 12u8..=16).prop_map(|(v, unit_log10)| Stakes::Large { v, unit_log10 }),
            3 => (prop::collection::vec(any::<u8>(), 1..40), prop::collection::vec(-1i8..=1, 0..40), 1u16..1000).prop_map(|(k_units, off, scale)| Stakes::Boundary { k_units, off, scale }),
        ];
        (sampler, stakes, prop_oneof![3 => Just(64u16), 3 => 1u16..=200, 1 => 1u16..=8], any::<u64>(), 1u8..=4, 10u16..60, 1u8..30)
            .prop_map(|(sampler, stakes, k, seed, draws, max_samples_x10, fanout)| Case { sampler, stakes, k, seed, draws, max_samples_x10, fanout })
            .boxed()
    }
    fn regressions(&self) -> Vec<Case> {
        let c = |sampler, stakes, k| Case { sampler, stakes, k, seed: 1, draws: 1, max_samples_x10: 20, fanout: 3 };
        vec![
            // known findings (construction panics)
            c(Sampler::Partition, Stakes::Small { v: vec![1, 1] }, 64),
            c(Sampler::Fa2, Stakes::Equal { n: 5, s: 1 }, 64),
            c(Sampler::Fa1Partition, Stakes::Small { v: vec![11, 8, 12, 15, 15, 3, 2, 9, 4, 6] }, 28),
            c(Sampler::Turbine, Stakes::Equal { n: 1, s: 1 }, 64),
            c(Sampler::Turbine, Stakes::Small { v: vec![18, 12] }, 64),
            // fixed defect: exact seat boundary lost in floating point
            c(Sampler::Fa1StakeWeighted, Stakes::EqualDividing { n: 49, m: 1, s: 1 }, 49),
            // fixed defect (afe51c6): samples * total_stake overflowed u64 for token-scale stakes
            c(Sampler::Fa1Partition, Stakes::Large { v: vec![100], unit_log10: 16 }, 64),
            c(Sampler::Fa1StakeWeighted, Stakes::Large { v: vec![100, 1, 1, 1, 1, 1, 1, 1, 1, 1, 1], unit_log10: 16 }, 64),
            c(Sampler::Fa2, Stakes::Large { v: vec![100, 1, 1, 1, 1, 1, 1, 1, 1, 1, 1], unit_log10: 16 }, 64),
        ]
    }
    fn run(&self, case: &Case) -> Outcome {
        let mut out = Outcome::default();
        let mut case = case.clone();
        if let Stakes::EqualDividing { n, m, .. } = &case.stakes {
            case.k = (*n as u16).max(1) * (*m as u16).max(1);
        }
        let case = &case;
        let k = case.k as usize;
        let mut stakes = stake_vec(&case.stakes, k);
        if case.sampler == Sampler::Turbine {
            stakes.truncate(40);
        }
        let n = stakes.len();
        let total: u128 = stakes.iter().map(|s| *s as u128).sum();
        let name = format!("{:?}", case.sampler);
        out.label(format!("sampler={name}"));
        // keep the decaying samplers inside their documented operating range
        if matches!(case.sampler, Sampler::DecayingQuorum | Sampler::DecayingSingle) {
            let cap = (case.max_samples_x10 as f64 / 10.0).ceil() as usize;
            let max = *stakes.iter().max().unwrap() as u128;
            let min = *stakes.iter().min().unwrap() as u128;
            if k > n * cap / 2 || max > min * 50 {
                out.label("skipped=decay-outside-operating-range");
                return out;
            }
        }
        let unequal = stakes.iter().any(|s| *s != stakes[0]);
        let vs = infos(&stakes);
        let built = match catch(|| build(case, vs.clone())) {
            Ok(b) => b,
            Err(p) => {
                let sig = format!("C17/construct-panic/{name}/{}", panic_msg(&p));
                if is_known("C17", &sig) {
                    out.excluded_known += 1;
                }
                out.violate(sig, format!("n={n} k={k} stakes={:?}: {p}", &stakes[..n.min(12)]));
                return out;
            }
        };
        let second = catch(|| build(case, vs.clone()));
        for d in 0..case.draws {
            let seed = case.seed.wrapping_add(d as u64);
            match &built {
                Built::Single(f) => {
                    let a = catch(|| f(&mut StdRng::seed_from_u64(seed)));
                    let b = catch(|| f(&mut StdRng::seed_from_u64(seed)));
                    match (a, b) {
                        (Ok(a), Ok(b)) => {
                            out.check(a < n, &format!("C17/member-out-of-range/{name}"), || format!("{a} >= {n}"));
                            out.check(a == b, &format!("C17/not-deterministic/{name}"), || format!("same seed: {a} then {b}"));
                            if let Ok(Built::Single(g)) = &second
                                && let Ok(c) = catch(|| g(&mut StdRng::seed_from_u64(seed)))
                            {
                                out.check(a == c, &format!("C17/instances-disagree/{name}"), || format!("same validators, same seed: {a} vs {c}"));
                            }
                            out.nontrivial |= unequal;
                        }
                        (Err(p), _) | (_, Err(p)) => {
                            out.violate(format!("C17/sample-panic/{name}/{}", panic_msg(&p)), format!("n={n}: {p}"));
                            return out;
                        }
                    }
                }
                Built::Quorum(f, size) => {
                    out.check(*size == k, &format!("C17/quorum-size-differs/{name}"), || format!("quorum_size() = {size}, configured {k}"));
                    let a = catch(|| f(&mut StdRng::seed_from_u64(seed)));
                    let b = catch(|| f(&mut StdRng::seed_from_u64(seed)));
                    let (a, b) = match (a, b) {
                        (Ok(a), Ok(b)) => (a, b),
                        (Err(p), _) | (_, Err(p)) => {
                            let sig = format!("C17/sample-panic/{name}/{}", panic_msg(&p));
                            if is_known("C17", &sig) {
                                out.excluded_known += 1;
                            }
                            out.violate(sig, format!("n={n} k={k}: {p}"));
                            return out;
                        }
                    };
                    out.check(a.len() == k, &format!("C17/committee-length/{name}"), || format!("n={n} k={k}: got {} members; stakes {:?}", a.len(), &stakes[..n.min(12)]));
                    out.check(a.iter().all(|m| *m < n), &format!("C17/member-out-of-range/{name}"), || format!("{a:?}"));
                    out.check(a == b, &format!("C17/not-deterministic/{name}"), || "same instance, same seed, different committees".into());
                    if let Ok(Built::Quorum(g, _)) = &second
                        && let Ok(c) = catch(|| g(&mut StdRng::seed_from_u64(seed)))
                    {
                        out.check(a == c, &format!("C17/instances-disagree/{name}"), || "two instances over the same validators, same seed, different committees".into());
                    }
                    let mut count = vec![0usize; n];
                    for m in &a {
                        if *m < n {
                            count[*m] += 1;
                        }
                    }
                    if matches!(case.sampler, Sampler::Fa1Partition | Sampler::Fa1StakeWeighted | Sampler::Fa2) {
                        let mut some_floor = false;
                        for v in 0..n {
                            let floor = (stakes[v] as u128 * k as u128 / total) as usize;
                            some_floor |= floor >= 1;
                            out.checks += 1;
                            if count[v] < floor {
                                out.violate(
                                    format!("C17/below-guaranteed-seats/{name}"),
                                    format!("n={n} k={k}: validator {v} holds {}/{total} => floor {floor} seats, got {}", stakes[v], count[v]),
                                );
                                break;
                            }
                            // exactly on a seat boundary: residual weight zero => never drawn beyond the floor
                            let on_boundary = (stakes[v] as u128 * k as u128).is_multiple_of(total);
                            let all_on_boundary = (0..n).all(|w| (stakes[w] as u128 * k as u128).is_multiple_of(total));
                            if on_boundary && !all_on_boundary && case.sampler != Sampler::Fa2 && count[v] > floor {
                                out.violate(
                                    format!("C17/zero-weight-validator-drawn/{name}"),
                                    format!("n={n} k={k}: validator {v} holds exactly {floor}/{k} of the stake, got {} seats", count[v]),
                                );
                                break;
                            }
                        }
                        // FA2: a validator whose share k*stake/total is rounded *up* gets at most that one
                        // extra seat (a single biased coin) and has zero weight in the residual
                        // distribution, so it is never drawn beyond floor + 1. Shares within 0.1 % of a
                        // rounding tie are left out (the implementation rounds in floating point).
                        if case.sampler == Sampler::Fa2 && !out.failed() {
                            let slack = total / 1000 + 1;
                            let rem = |w: usize| (stakes[w] as u128 * k as u128) % total;
                            let some_clearly_down = (0..n).any(|w| rem(w) > slack && 2 * rem(w) + slack < total);
                            if some_clearly_down {
                                for v in 0..n {
                                    let floor = (stakes[v] as u128 * k as u128 / total) as usize;
                                    out.checks += 1;
                                    if 2 * rem(v) > total + slack && count[v] > floor + 1 {
                                        out.violate(
                                            "C17/zero-weight-validator-drawn/Fa2".to_string(),
                                            format!("n={n} k={k}: validator {v} holds {}/{total} (share rounded up to {} seats), got {} seats", stakes[v], floor + 1, count[v]),
                                        );
                                        break;
                                    }
                                }
                            }
                        }
                        out.nontrivial |= unequal && some_floor;
                    } else {
                        out.nontrivial |= unequal;
                    }
                    if case.sampler == Sampler::DecayingQuorum {
                        let cap = (case.max_samples_x10 as f64 / 10.0).ceil() as usize;
                        out.check(count.iter().all(|c| *c <= cap), "C17/seat-cap-exceeded/DecayingQuorum", || format!("cap {cap}, counts {:?}", &count[..n.min(20)]));
                        // a committee is a function of the validator set and the random source only:
                        // drawing one must leave no trace in the instance - a single draw (and a
                        // clone's single draw) afterwards equals the same draw on a fresh instance
                        let msx = case.max_samples_x10 as f64 / 10.0;
                        let r = catch(|| {
                            let used = DecayingAcceptanceSampler::new(vs.clone(), msx, k);
                            let _ = used.sample_quorum(&mut StdRng::seed_from_u64(seed));
                            let fresh = DecayingAcceptanceSampler::new(vs.clone(), msx, k);
                            let s2 = seed ^ 0x5151;
                            let a = used.sample(&mut StdRng::seed_from_u64(s2)).as_usize();
                            let b = fresh.sample(&mut StdRng::seed_from_u64(s2)).as_usize();
                            let used2 = DecayingAcceptanceSampler::new(vs.clone(), msx, k);
                            let _ = used2.sample_quorum(&mut StdRng::seed_from_u64(seed));
                            let c = used2.clone().sample(&mut StdRng::seed_from_u64(s2)).as_usize();
                            (a, b, c)
                        });
                        match r {
                            Ok((a, b, c)) => {
                                out.check(a == b, "C17/committee-leaves-state-behind/DecayingQuorum", || format!("n={n} k={k}: after a committee the next single draw is {a}, on a fresh instance {b}"));
                                out.check(c == b, "C17/committee-leaves-state-behind/DecayingQuorum", || format!("n={n} k={k}: a clone taken after a committee draws {c}, a fresh instance {b}"));
                            }
                            Err(p) => out.violate(format!("C17/sample-panic/{name}/{}", panic_msg(&p)), format!("single draw after a committee, n={n} k={k}: {p}")),
                        }
                    }
                }
            }
            if out.failed() {
                break;
            }
        }
        out
    }
}
