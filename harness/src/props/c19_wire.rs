//! C19 — wire format: messages round-trip exactly and fit one datagram.

use alpenglow::Transaction;
use alpenglow::consensus::{Cert, ConsensusMessage, Vote};
use alpenglow::network::{MTU_BYTES, deserialize};
use alpenglow::repair::{RepairRequest, RepairResponse};
use alpenglow::shredder::{AontShredder, CodingOnlyShredder, PetsShredder, RegularShredder, Shred, Shredder};
use alpenglow::types::Slot;
use alpenglow::{ValidatorIndex};
use proptest::prelude::*;
use serde::{Deserialize, Serialize};

use crate::engine::{Outcome, Property, Tier, catch, panic_msg, panic_site};
use crate::fixtures::shreds::{ShredParts, make_slice, prng_bytes};
use crate::fixtures::votes::{CKind, VKind, cert_kind};
use crate::fixtures::{hash_from_bytes, keys};

#[derive(Clone, Copy, Debug, PartialEq, Eq, Serialize, Deserialize)]
pub enum Dec {
    Consensus,
    Shred,
    RepairRequest,
    RepairResponse,
    Transaction,
}

/// decode with the network decoder, re-encode; None = rejected
fn redecode(dec: Dec, bytes: &[u8]) -> Option<Vec<u8>> {
    fn enc<T: wincode::SchemaWrite<wincode::config::DefaultConfig, Src = T>>(v: &T) -> Vec<u8> {
        wincode::serialize(v).expect("encode")
    }
    match dec {
        Dec::Consensus => deserialize::<ConsensusMessage>(bytes).ok().map(|m| enc(&m)),
        Dec::Shred => deserialize::<Shred>(bytes).ok().map(|m| enc(&m)),
        Dec::RepairRequest => deserialize::<RepairRequest>(bytes).ok().map(|m| enc(&m)),
        Dec::RepairResponse => deserialize::<RepairResponse>(bytes).ok().map(|m| enc(&m)),
        Dec::Transaction => deserialize::<Transaction>(bytes).ok().map(|m| enc(&m)),
    }
}

/// Harness-side description of an aggregate signature half: bit length and signer set.
#[derive(Clone, Debug, Serialize, Deserialize)]
pub struct AggSpec {
    pub n_bits: u16,
    /// density 0..=255 and seed choose the signer set
    pub density: u8,
    pub seed: u64,
    /// extra zero words appended to the bit mask (non-canonical but decodable if within bounds)
    pub extra_words: u8,
    /// garbage bits set beyond n_bits in the last word
    pub stray_bits: bool,
    /// the mask is encoded with this many words fewer than n_bits needs (it then announces bits
    /// its words do not carry and must be rejected)
    #[serde(default)]
    pub missing_words: u8,
}

#[derive(Clone, Debug, Serialize, Deserialize)]
pub enum Case {
    Vote { kind: VKind, slot: u64, hash_seed: u64, signer: u64, key: u8 },
    Cert { kind: CKind, slot: u64, hash_seed: u64, primary: AggSpec, fallback: Option<AggSpec>, drop_primary: bool, stake: u64 },
    Shred { shredder: u8, data_len: u16, parent: bool, slot: u64, slice: u16, is_last: bool, which: u8, mutate: ShredMut },
    RepairRequest { sender: u64, kind: u8, slot: u64, hash_seed: u64, slice: u64, shred: u64 },
    RepairResponse { kind: u8, slot: u64, hash_seed: u64, slice: u16, shred: u8, proof_len: u8, data_len: u16 },
    Transaction { len: u16, seed: u64 },
    Bytes { dec: Dec, seed: u64, len: u16 },
    /// datagrams sent over a real loopback UDP socket to the crate's UDP transport:
    /// each entry = (payload length, number of junk bytes appended after the valid encoding)
    Transport { datagrams: Vec<(u8, u8)> },
    /// a valid encoding with some bytes altered
    Mutated { base: Box<Case>, edits: Vec<(u16, u8)>, truncate: Option<u16>, append: Vec<u8> },
}

#[derive(Clone, Debug, Serialize, Deserialize)]
pub enum ShredMut {
    None,
    SliceIndex(u64),
    ShredIndex(u64),
    IsLast(u8),
    Tag(u32),
}

pub struct C19;

fn agg_bytes(a: &AggSpec, sig: &[u8]) -> (Vec<u8>, Vec<usize>) {
    let n = a.n_bits as usize;
    let words = n.div_ceil(64);
    let r = prng_bytes(a.seed, n.max(1));
    let mut mask = vec![0u64; words + a.extra_words as usize];
    let mut signers = Vec::new();
    for i in 0..n {
        if r[i] <= a.density {
            mask[i / 64] |= 1 << (i % 64);
            signers.push(i);
        }
    }
    if a.stray_bits && !n.is_multiple_of(64) && words > 0 {
        mask[words - 1] |= !0u64 << (n % 64);
    }
    if a.missing_words > 0 && a.extra_words == 0 {
        let keep = words.saturating_sub(a.missing_words as usize);
        mask.truncate(keep);
    }
    let mut b = Vec::new();
    b.extend_from_slice(sig);
    b.extend_from_slice(&(n as u64).to_le_bytes());
    b.extend_from_slice(&(mask.len() as u64).to_le_bytes());
    for w in &mask {
        b.extend_from_slice(&w.to_le_bytes());
    }
    (b, signers)
}

/// A valid 96-byte signature encoding (taken from a real vote).
fn real_sig(key: usize) -> Vec<u8> {
    let v = Vote::new_skip(Slot::new(1), &keys().vote[key % 8], ValidatorIndex::new(0));
    let bytes = wincode::serialize(&v).expect("encode vote");
    // tag(4) + slot(8) + sig(96) + signer(8)
    bytes[12..108].to_vec()
}

fn hash32(seed: u64) -> [u8; 32] {
    prng_bytes(seed, 32).try_into().unwrap()
}

/// Builds the canonical encoding for the structured cases. Returns (decoder, bytes, is_emitted_by_correct_node).
fn build(case: &Case) -> Option<(Dec, Vec<u8>, bool)> {
    match case {
        Case::Vote { kind, slot, hash_seed, signer, key } => {
            let sk = &keys().vote[*key as usize % 8];
            let h: alpenglow::crypto::merkle::BlockHash = hash_from_bytes(hash32(*hash_seed)).into();
            let s = Slot::new(*slot);
            let id = ValidatorIndex::new(*signer);
            let v = match kind {
                VKind::Notar => Vote::new_notar(s, h, sk, id),
                VKind::NotarFallback => Vote::new_notar_fallback(s, h, sk, id),
                VKind::Skip => Vote::new_skip(s, sk, id),
                VKind::SkipFallback => Vote::new_skip_fallback(s, sk, id),
                VKind::Final => Vote::new_final(s, sk, id),
            };
            Some((Dec::Consensus, wincode::serialize(&ConsensusMessage::Vote(v)).ok()?, true))
        }
        Case::Cert { kind, slot, hash_seed, primary, fallback, drop_primary, stake } => {
            let sig = real_sig(*hash_seed as usize);
            let mut b = Vec::new();
            b.extend_from_slice(&1u32.to_le_bytes()); // ConsensusMessage::Cert
            let tag: u32 = match kind {
                CKind::Notar => 0,
                CKind::NotarFallback => 1,
                CKind::Skip => 2,
                CKind::FastFinal => 3,
                CKind::Final => 4,
            };
            b.extend_from_slice(&tag.to_le_bytes());
            b.extend_from_slice(&slot.to_le_bytes());
            if kind.has_hash() {
                b.extend_from_slice(&hash32(*hash_seed));
            }
            let mixed = matches!(kind, CKind::NotarFallback | CKind::Skip);
            if mixed {
                let halves: [Option<&AggSpec>; 2] = [if *drop_primary && fallback.is_some() { None } else { Some(primary) }, fallback.as_ref()];
                for h in halves {
                    match h {
                        None => b.push(0),
                        Some(a) => {
                            b.push(1);
                            b.extend_from_slice(&agg_bytes(a, &sig).0);
                        }
                    }
                }
            } else {
                b.extend_from_slice(&agg_bytes(primary, &sig).0);
            }
            b.extend_from_slice(&stake.to_le_bytes());
            // a correct node emits canonical masks only
            let canonical = |a: &AggSpec| a.extra_words == 0 && !a.stray_bits && a.n_bits >= 1;
            let emitted = canonical(primary) && fallback.as_ref().is_none_or(canonical);
            Some((Dec::Consensus, b, emitted))
        }
        Case::Shred { shredder, data_len, parent, slot, slice, is_last, which, mutate } => {
            let sk = &keys().sig[0];
            let slice_v = |max: usize| {
                let overhead = if *parent { 49 } else { 9 };
                let dl = (*data_len as usize).min(max.saturating_sub(overhead));
                make_slice(*slot, *slice as usize % 1024, *is_last, parent.then_some((0, 0)), prng_bytes(*slot ^ 77, dl))
            };
            let shreds = match shredder % 4 {
                0 => RegularShredder::default().shred(&slice_v(RegularShredder::MAX_DATA_SIZE), sk).ok()?,
                1 => CodingOnlyShredder::default().shred(&slice_v(CodingOnlyShredder::MAX_DATA_SIZE), sk).ok()?,
                2 => AontShredder::default().shred(&slice_v(AontShredder::MAX_DATA_SIZE), sk).ok()?,
                _ => PetsShredder::default().shred(&slice_v(PetsShredder::MAX_DATA_SIZE), sk).ok()?,
            };
            let s = &shreds[*which as usize % 64];
            let mut parts = ShredParts::of(s.as_shred());
            let mut emitted = true;
            match mutate {
                ShredMut::None => {}
                ShredMut::SliceIndex(v) => {
                    parts.slice_index = *v;
                    emitted = false;
                }
                ShredMut::ShredIndex(v) => {
                    parts.shred_index = *v;
                    emitted = false;
                }
                ShredMut::IsLast(v) => {
                    parts.is_last = *v;
                    emitted = false;
                }
                ShredMut::Tag(_) => emitted = false,
            }
            let mut bytes = parts.to_bytes();
            if let ShredMut::Tag(t) = mutate {
                bytes[..4].copy_from_slice(&t.to_le_bytes());
            }
            Some((Dec::Shred, bytes, emitted))
        }
        Case::RepairRequest { sender, kind, slot, hash_seed, slice, shred } => {
            let mut b = Vec::new();
            b.extend_from_slice(&sender.to_le_bytes());
            b.extend_from_slice(&request_type_bytes(*kind, *slot, *hash_seed, *slice, *shred));
            Some((Dec::RepairRequest, b, *slice < 1024 && *shred < 64))
        }
        Case::RepairResponse { kind, slot, hash_seed, slice, shred, proof_len, data_len } => {
            let mut b = Vec::new();
            let k = kind % 4;
            b.extend_from_slice(&(k as u32).to_le_bytes());
            let slice = *slice as u64 % 1024;
            let shred = *shred as u64 % 64;
            let proof = |b: &mut Vec<u8>| {
                let n = (*proof_len % 11) as usize;
                b.extend_from_slice(&(n as u64).to_le_bytes());
                for i in 0..n {
                    b.extend_from_slice(&hash32(hash_seed.wrapping_add(i as u64)));
                }
            };
            match k {
                0 => {
                    b.extend_from_slice(&request_type_bytes(0, *slot, *hash_seed, slice, shred));
                    b.extend_from_slice(&slice.to_le_bytes());
                    b.extend_from_slice(&hash32(*hash_seed ^ 1));
                    proof(&mut b);
                }
                1 => {
                    b.extend_from_slice(&request_type_bytes(1, *slot, *hash_seed, slice, shred));
                    b.extend_from_slice(&hash32(*hash_seed ^ 1));
                    proof(&mut b);
                }
                2 => {
                    b.extend_from_slice(&request_type_bytes(2, *slot, *hash_seed, slice, shred));
                    let sk = &keys().sig[0];
                    let max = RegularShredder::MAX_DATA_SIZE - 49;
                    let dl = if *data_len > 60000 { max } else { (*data_len as usize).min(max) };
                    let sl = make_slice(*slot, slice as usize, true, Some((0, 0)), prng_bytes(*slot, dl));
                    let shreds = RegularShredder::default().shred(&sl, sk).ok()?;
                    b.extend_from_slice(&wincode::serialize(shreds[shred as usize].as_shred()).ok()?);
                }
                _ => b.extend_from_slice(&request_type_bytes(*proof_len % 3, *slot, *hash_seed, slice, shred)),
            }
            Some((Dec::RepairResponse, b, true))
        }
        Case::Transaction { len, seed } => {
            let len = *len as usize % 1400;
            let tx = Transaction(prng_bytes(*seed, len));
            Some((Dec::Transaction, wincode::serialize(&tx).ok()?, len <= alpenglow::MAX_TRANSACTION_SIZE))
        }
        Case::Bytes { .. } | Case::Mutated { .. } | Case::Transport { .. } => None,
    }
}

/// junk value that stands for "send an empty datagram instead"
const EMPTY_DATAGRAM: u8 = 255;

/// Sends the datagrams to a `UdpNetwork<Transaction, Transaction>` and returns the markers of
/// the transactions its `receive()` delivered (None = transport unavailable / timed out).
fn transport_roundtrip(datagrams: &[(u8, u8)]) -> Option<Vec<(u16, usize, bool)>> {
    use alpenglow::network::{Network, UdpNetwork};
    thread_local! {
        static RT: tokio::runtime::Runtime = tokio::runtime::Builder::new_current_thread().enable_all().build().expect("runtime");
    }
    RT.with(|rt| {
        rt.block_on(async {
            let net: UdpNetwork<Transaction, Transaction> = UdpNetwork::new_with_any_port();
            let sender = std::net::UdpSocket::bind("127.0.0.1:0").ok()?;
            let to = std::net::SocketAddr::from(([127, 0, 0, 1], net.port()));
            let encode = |marker: u16, len: u8| {
                let mut payload = vec![0xA5u8; 2 + len as usize];
                payload[..2].copy_from_slice(&marker.to_le_bytes());
                wincode::serialize(&Transaction(payload)).expect("encode")
            };
            // the receiver runs while the datagrams are sent, so that they are drained in batches of
            // varying composition; the end marker is sent three times, each in a batch of its own
            let send = async {
                for (i, (len, junk)) in datagrams.iter().enumerate() {
                    let mut b = encode(i as u16, *len);
                    if *junk == EMPTY_DATAGRAM {
                        b.clear();
                    } else {
                        b.extend(std::iter::repeat_n(0u8, *junk as usize));
                    }
                    sender.send_to(&b, to).ok()?;
                    if (i + *len as usize) % 4 == 3 {
                        tokio::time::sleep(std::time::Duration::from_millis(2)).await;
                    }
                }
                for _ in 0..3 {
                    tokio::time::sleep(std::time::Duration::from_millis(25)).await;
                    sender.send_to(&encode(u16::MAX, 0), to).ok()?;
                }
                Some(())
            };
            let recv = async {
                let mut got = Vec::new();
                loop {
                    let r = tokio::time::timeout(std::time::Duration::from_secs(3), net.receive()).await;
                    let Ok(Ok(tx)) = r else { return None };
                    if tx.0.len() < 2 {
                        continue;
                    }
                    let m = u16::from_le_bytes([tx.0[0], tx.0[1]]);
                    if m == u16::MAX {
                        return Some(got);
                    }
                    got.push((m, tx.0.len(), tx.0[2..].iter().all(|b| *b == 0xA5)));
                }
            };
            let (sent, got) = tokio::join!(send, recv);
            sent?;
            got
        })
    })
}

fn request_type_bytes(kind: u8, slot: u64, hash_seed: u64, slice: u64, shred: u64) -> Vec<u8> {
    let mut b = Vec::new();
    let k = kind % 3;
    b.extend_from_slice(&(k as u32).to_le_bytes());
    b.extend_from_slice(&slot.to_le_bytes());
    b.extend_from_slice(&hash32(hash_seed));
    if k >= 1 {
        b.extend_from_slice(&slice.to_le_bytes());
    }
    if k == 2 {
        b.extend_from_slice(&shred.to_le_bytes());
    }
    b
}

fn agg_spec() -> impl Strategy<Value = AggSpec> {
    (
        prop_oneof![3 => 1u16..=2048, 1 => Just(2048u16), 1 => (1u16..=32).prop_map(|w| w * 64), 1 => Just(0u16), 1 => 2049u16..=2200],
        any::<u8>(),
        any::<u64>(),
        prop_oneof![8 => Just(0u8), 1 => 1u8..3, 1 => Just(40u8)],
        prop::bool::weighted(0.1),
        prop_oneof![12 => Just(0u8), 1 => 1u8..=2],
    )
        .prop_map(|(n_bits, density, seed, extra_words, stray_bits, missing_words)| AggSpec { n_bits, density, seed, extra_words, stray_bits, missing_words })
}

fn structured() -> BoxedStrategy<Case> {
    let vk = prop_oneof![Just(VKind::Notar), Just(VKind::NotarFallback), Just(VKind::Skip), Just(VKind::SkipFallback), Just(VKind::Final)];
    let ck = prop_oneof![Just(CKind::Notar), Just(CKind::NotarFallback), Just(CKind::Skip), Just(CKind::FastFinal), Just(CKind::Final)];
    let slot = prop_oneof![3 => 0u64..1000, 1 => any::<u64>(), 1 => Just(u64::MAX)];
    prop_oneof![
        3 => (vk, slot.clone(), any::<u64>(), prop_oneof![0u64..2048, any::<u64>()], any::<u8>())
            .prop_map(|(kind, slot, hash_seed, signer, key)| Case::Vote { kind, slot, hash_seed, signer, key }),
        6 => (ck, slot.clone(), any::<u64>(), agg_spec(), prop::option::of(agg_spec()), any::<bool>(), any::<u64>())
            .prop_map(|(kind, slot, hash_seed, primary, fallback, drop_primary, stake)| Case::Cert { kind, slot, hash_seed, primary, fallback, drop_primary, stake }),
        4 => (any::<u8>(), prop_oneof![any::<u16>(), 32000u16..=32767, 0u16..200], any::<bool>(), slot.clone(), 0u16..1024, any::<bool>(), any::<u8>(),
              prop_oneof![
                  6 => Just(ShredMut::None),
                  1 => prop_oneof![Just(1023u64), Just(1024u64), 1024u64..5000, any::<u64>()].prop_map(ShredMut::SliceIndex),
                  1 => prop_oneof![Just(63u64), Just(64u64), 64u64..300, any::<u64>()].prop_map(ShredMut::ShredIndex),
                  1 => (2u8..=255).prop_map(ShredMut::IsLast),
                  1 => (2u32..10).prop_map(ShredMut::Tag),
              ])
            .prop_map(|(shredder, data_len, parent, slot, slice, is_last, which, mutate)| Case::Shred { shredder, data_len, parent, slot, slice, is_last, which, mutate }),
        2 => (any::<u64>(), any::<u8>(), slot.clone(), any::<u64>(), prop_oneof![0u64..1024, Just(1023u64), Just(1024u64), any::<u64>()], prop_oneof![0u64..64, Just(64u64), any::<u64>()])
            .prop_map(|(sender, kind, slot, hash_seed, slice, shred)| Case::RepairRequest { sender, kind, slot, hash_seed, slice, shred }),
        3 => (any::<u8>(), slot, any::<u64>(), any::<u16>(), any::<u8>(), any::<u8>(), any::<u16>())
            .prop_map(|(kind, slot, hash_seed, slice, shred, proof_len, data_len)| Case::RepairResponse { kind, slot, hash_seed, slice, shred, proof_len, data_len }),
        1 => (any::<u16>(), any::<u64>()).prop_map(|(len, seed)| Case::Transaction { len, seed }),
    ]
    .boxed()
}

impl Property for C19 {
    type Case = Case;
    fn id(&self) -> &'static str {
        "C19"
    }
    fn cases(&self, tier: Tier) -> u32 {
        tier.pick(40_000, 1_500_000)
    }
    fn rule(&self) -> String {
        "cases: every vote kind with arbitrary slot / hash / signer index; every certificate type built at the wire level \
         for 0..=2200 mask bits (emphasis 1..=2048, multiples of 64, 2048), arbitrary signer subsets, either or both \
         halves of mixed certificates, arbitrary declared stake, optional non-canonical masks (extra words, stray bits); \
         shreds of all four shredders for payload sizes over the whole range with header fields pushed out of range; \
         repair requests and all four response variants (proofs up to 10 hashes, maximum-size shred); transactions \
         0..1400 bytes; arbitrary byte strings and byte-level edits / truncations / appended bytes of valid encodings \
         offered to all five decoders; bursts of up to 24 datagrams (valid transactions, valid ones followed by \
         junk bytes, empty datagrams) sent over a real loopback UDP socket to the crate's UdpNetwork while it is \
         receiving. Oracle: decode(encode) re-encodes to the same bytes; accessors agree with the \
         generated fields; one appended byte is rejected; indices >= 1024 / >= 64 and masks > 2048 bits are rejected; \
         anything that decodes re-encodes to a stable encoding; messages a correct node emits are <= 1500 bytes; never a \
         panic; the UDP transport delivers exactly the valid datagrams, each once, in order and unaltered. Non-trivial: the offered bytes decode (canonical, mutated or arbitrary)."
            .into()
    }
    fn assumptions(&self) -> Vec<String> {
        vec!["signature bytes inside generated certificates are real curve points (validity of the signature is irrelevant to the codec)".into()]
    }
    fn strategy(&self, _tier: Tier) -> BoxedStrategy<Case> {
        let dec = prop_oneof![Just(Dec::Consensus), Just(Dec::Shred), Just(Dec::RepairRequest), Just(Dec::RepairResponse), Just(Dec::Transaction)];
        prop_oneof![
            200 => structured(),
            20 => (dec, any::<u64>(), 0u16..1600).prop_map(|(dec, seed, len)| Case::Bytes { dec, seed, len }),
            1 => prop::collection::vec((0u8..200, prop_oneof![4 => Just(0u8), 2 => 1u8..4, 1 => Just(EMPTY_DATAGRAM)]), 1..24).prop_map(|datagrams| Case::Transport { datagrams }),
            100 => (structured(), prop::collection::vec((any::<u16>(), any::<u8>()), 0..4), prop::option::weighted(0.2, any::<u16>()), prop::collection::vec(any::<u8>(), 0..3))
                .prop_map(|(base, edits, truncate, append)| Case::Mutated { base: Box::new(base), edits, truncate, append }),
        ]
        .boxed()
    }
    fn fuzzable(&self, case: &Case) -> bool {
        // loopback UDP cases sleep for ~100 ms of real time
        !matches!(case, Case::Transport { .. })
    }
    fn run(&self, case: &Case) -> Outcome {
        let mut out = Outcome::default();
        match case {
            Case::Bytes { dec, seed, len } => {
                let bytes = prng_bytes(*seed, *len as usize);
                judge_arbitrary(&mut out, *dec, &bytes, "arbitrary");
            }
            Case::Transport { datagrams } => {
                out.label("transport:udp");
                match catch(|| transport_roundtrip(datagrams)) {
                    Err(p) => out.violate(format!("C19/transport/panic/{}/{}", panic_site(&p), panic_msg(&p)), p),
                    Ok(None) => out.label("transport:unavailable-or-timeout"),
                    Ok(Some(got)) => {
                        out.nontrivial = datagrams.iter().any(|d| d.1 > 0);
                        for (m, len, intact) in &got {
                            out.checks += 1;
                            let Some((sent_len, junk)) = datagrams.get(*m as usize).copied() else {
                                out.violate("C19/transport/invented-message", format!("marker {m} was never sent ({} datagrams)", datagrams.len()));
                                continue;
                            };
                            if junk > 0 {
                                out.violate("C19/transport/trailing-bytes-accepted", format!("datagram #{m} carried {junk} bytes after a valid transaction (or was empty) and was delivered by UdpNetwork::receive"));
                            } else if *len != sent_len as usize + 2 || !*intact {
                                out.violate("C19/transport/message-altered", format!("datagram #{m}: sent a {}-byte transaction, received {len} bytes (payload intact: {intact})", sent_len as usize + 2));
                            }
                        }
                        // loopback UDP keeps order and does not duplicate: what is delivered is a
                        // subsequence of the clean datagrams, each exactly as it was sent
                        out.checks += 1;
                        let markers: Vec<u16> = got.iter().map(|g| g.0).collect();
                        if markers.windows(2).any(|w| w[0] >= w[1]) {
                            out.violate("C19/transport/replayed-or-reordered", format!("sent {datagrams:?}; delivered markers {markers:?}"));
                        }
                        // the end marker arrived, so did everything queued before it: a loopback
                        // socket drops only when its receive buffer (>= 200 KB) overflows, and a
                        // case sends at most 24 datagrams of at most 210 bytes
                        let clean: Vec<u16> = datagrams.iter().enumerate().filter(|(_, d)| d.1 == 0).map(|(i, _)| i as u16).collect();
                        out.checks += 1;
                        if let Some(missing) = clean.iter().find(|m| !markers.contains(m)) {
                            out.violate("C19/transport/message-lost", format!("sent {datagrams:?}; datagram #{missing} is a valid transaction and was not delivered although the end marker was; delivered {markers:?}"));
                        }
                    }
                }
            }
            Case::Mutated { base, edits, truncate, append } => {
                let Some((dec, mut bytes, _)) = build(base) else { return out };
                for (pos, val) in edits {
                    if !bytes.is_empty() {
                        let p = crate::engine::pick_idx(*pos, bytes.len());
                        bytes[p] = *val;
                    }
                }
                if let Some(t) = truncate {
                    let l = crate::engine::pick_idx(*t, bytes.len() + 1);
                    bytes.truncate(l);
                }
                bytes.extend_from_slice(append);
                judge_arbitrary(&mut out, dec, &bytes, "mutated");
            }
            structured => {
                let built = catch(|| build(structured));
                let Ok(Some((dec, bytes, emitted))) = built else {
                    if let Err(p) = built {
                        out.violate(format!("C19/encode/panic/{}/{}", panic_site(&p), panic_msg(&p)), p);
                    }
                    return out;
                };
                judge_structured(&mut out, structured, dec, &bytes, emitted);
            }
        }
        out
    }
}

fn judge_arbitrary(out: &mut Outcome, dec: Dec, bytes: &[u8], class: &str) {
    out.label(format!("{class}:{dec:?}"));
    match catch(|| redecode(dec, bytes)) {
        Err(p) => out.violate(format!("C19/decode/panic/{dec:?}/{}/{}", panic_site(&p), panic_msg(&p)), format!("{} bytes: {p}", bytes.len())),
        Ok(None) => {}
        Ok(Some(e1)) => {
            out.nontrivial = true;
            out.label(format!("{class}-decodes:{dec:?}"));
            out.checks += 1;
            match catch(|| redecode(dec, &e1)) {
                Err(p) => out.violate(format!("C19/decode/panic/{dec:?}/{}/{}", panic_site(&p), panic_msg(&p)), p),
                Ok(None) => out.violate(format!("C19/reencoding-not-decodable/{dec:?}"), format!("input {} bytes decodes, its re-encoding ({} bytes) does not", bytes.len(), e1.len())),
                Ok(Some(e2)) => {
                    if e2 != e1 {
                        out.violate(format!("C19/encoding-not-stable/{dec:?}"), format!("encode(decode(e1)) != e1 ({} vs {} bytes)", e2.len(), e1.len()));
                    }
                }
            }
            // trailing bytes are always rejected
            let mut padded = bytes.to_vec();
            padded.push(0);
            if let Ok(Some(_)) = catch(|| redecode(dec, &padded)) {
                out.violate(format!("C19/trailing-byte-accepted/{dec:?}"), format!("{} bytes + 1", bytes.len()));
            }
        }
    }
}

fn judge_structured(out: &mut Outcome, case: &Case, dec: Dec, bytes: &[u8], emitted: bool) {
    // what must be rejected
    let must_reject = match case {
        Case::Cert { kind, primary, fallback, drop_primary, .. } => {
            let bad = |a: &AggSpec| {
                let words = (a.n_bits as usize).div_ceil(64) + a.extra_words as usize;
                let short = a.missing_words > 0 && a.extra_words == 0 && a.n_bits > 0;
                words > 32 || short
            };
            let mixed = matches!(kind, CKind::NotarFallback | CKind::Skip);
            if mixed {
                let p = !(*drop_primary && fallback.is_some()) && bad(primary);
                p || fallback.as_ref().is_some_and(bad)
            } else {
                bad(primary)
            }
        }
        Case::Shred { mutate, .. } => match mutate {
            ShredMut::None => false,
            ShredMut::SliceIndex(v) => *v >= 1024,
            ShredMut::ShredIndex(v) => *v >= 64,
            ShredMut::IsLast(_) | ShredMut::Tag(_) => true,
        },
        Case::RepairRequest { kind, slice, shred, .. } => (kind % 3 >= 1 && *slice >= 1024) || (kind % 3 == 2 && *shred >= 64),
        _ => false,
    };
    let label = match case {
        Case::Vote { kind, .. } => format!("vote:{kind:?}"),
        Case::Cert { kind, .. } => format!("cert:{kind:?}"),
        Case::Shred { shredder, .. } => format!("shred:{}", shredder % 4),
        Case::RepairRequest { kind, .. } => format!("repair-request:{}", kind % 3),
        Case::RepairResponse { kind, .. } => format!("repair-response:{}", kind % 4),
        Case::Transaction { .. } => "transaction".into(),
        _ => "other".into(),
    };
    out.label(label.clone());
    let res = match catch(|| redecode(dec, bytes)) {
        Err(p) => {
            out.violate(format!("C19/decode/panic/{dec:?}/{}/{}", panic_site(&p), panic_msg(&p)), format!("{case:?}: {p}"));
            return;
        }
        Ok(r) => r,
    };
    out.checks += 1;
    match (res, must_reject) {
        (Some(_), true) => out.violate(format!("C19/out-of-range-accepted/{label}"), format!("{case:?}")),
        (None, true) => {
            out.label("rejected-out-of-range");
        }
        (None, false) => out.violate(format!("C19/valid-encoding-rejected/{label}"), format!("{case:?} ({} bytes)", bytes.len())),
        (Some(e1), false) => {
            out.nontrivial = true;
            let canonical = match case {
                Case::Cert { primary, fallback, .. } => primary.extra_words == 0 && !primary.stray_bits && primary.missing_words == 0 && fallback.as_ref().is_none_or(|f| f.extra_words == 0 && !f.stray_bits && f.missing_words == 0),
                _ => true,
            };
            if canonical {
                out.check(e1 == bytes, &format!("C19/roundtrip-differs/{label}"), || format!("{case:?}: {} bytes in, {} bytes out", bytes.len(), e1.len()));
            } else {
                out.label("non-canonical-mask-accepted");
            }
            // stability
            match catch(|| redecode(dec, &e1)) {
                Ok(Some(e2)) => {
                    out.check(e2 == e1, &format!("C19/encoding-not-stable/{dec:?}"), || format!("{case:?}"));
                }
                Ok(None) => out.violate(format!("C19/reencoding-not-decodable/{dec:?}"), format!("{case:?}")),
                Err(p) => out.violate(format!("C19/decode/panic/{dec:?}/{}/{}", panic_site(&p), panic_msg(&p)), p),
            }
            // trailing byte
            let mut padded = bytes.to_vec();
            padded.push(0);
            out.check(matches!(catch(|| redecode(dec, &padded)), Ok(None)), &format!("C19/trailing-byte-accepted/{dec:?}"), || format!("{case:?}"));
            // datagram bound
            if emitted {
                out.check(bytes.len() <= MTU_BYTES, &format!("C19/exceeds-datagram/{label}"), || format!("{case:?}: {} bytes", bytes.len()));
            }
            // accessors agree with the generated fields
            if let Case::Cert { kind, slot, primary, fallback, drop_primary, stake, .. } = case
                && let Ok(ConsensusMessage::Cert(c)) = deserialize::<ConsensusMessage>(bytes)
            {
                let sig = [0u8; 96];
                let mixed = matches!(kind, CKind::NotarFallback | CKind::Skip);
                let mut want: Vec<usize> = Vec::new();
                if !(mixed && *drop_primary && fallback.is_some()) {
                    want.extend(agg_bytes(primary, &sig).1);
                }
                if mixed && let Some(f) = fallback {
                    want.extend(agg_bytes(f, &sig).1);
                }
                let got: Vec<usize> = c.signers().map(|v| v.as_usize()).collect();
                out.check(cert_kind(&c) == *kind && c.slot().inner() == *slot && c.stake().inner() == *stake, "C19/cert-fields-differ", || format!("{case:?}"));
                out.check(got == want, "C19/cert-signers-differ", || format!("{case:?}: decoded {} signers, generated {}", got.len(), want.len()));
                let _: &Cert = &c;
            }
            if let Case::Vote { kind, slot, signer, .. } = case
                && let Ok(ConsensusMessage::Vote(v)) = deserialize::<ConsensusMessage>(bytes)
            {
                let c = crate::fixtures::votes::classify_vote(&v);
                out.check(c.kind == *kind && c.slot == *slot && v.signer().inner() == *signer, "C19/vote-fields-differ", || format!("{case:?}"));
            }
        }
    }
}
