//! Shared interpreter for the consistent-world properties C07 (parent-ready), C08 (finality and
//! pruning) and C18 (standstill recovery): delivers a generated sub-multiset of a world's
//! certificates / votes / block links to a real pool and compares, after every call, the pool's
//! observable answers with models recomputed from the *set* of accepted inputs.

use std::collections::{BTreeMap, BTreeSet};

use alpenglow::consensus::{Pool, PoolEvent};
use alpenglow::types::Slot;
use either::Either;
use tokio::sync::oneshot;

use crate::engine::{Outcome, panic_msg, panic_site, pick_idx};
use crate::fixtures::block_hash;
use crate::fixtures::pool_driver::{CallOutput, PoolDriver, bid};
use crate::fixtures::votes::{CKind, cert_kind};
use crate::fixtures::world::{WOp, World, WorldCase, progressive_idx};

#[derive(Clone, Copy, PartialEq, Eq, Debug)]
pub enum Focus {
    Parents,
    Finality,
    /// only the standstill triggers are judged
    Standstill,
}

type B = (u64, u64);

/// Order-free model of what the pool has been told.
#[derive(Default)]
pub struct WModel {
    /// certificates the pool reported holding: (slot, kind) -> block tags (0 when no block)
    pub certs: BTreeMap<(u64, CKind), BTreeSet<u64>>,
    /// block -> parent links registered so far
    pub links: BTreeMap<B, B>,
}

pub struct Closure {
    /// blocks finalised directly by certificates
    pub direct: BTreeSet<B>,
    /// all finalised blocks (direct and ancestors over known links), genesis included if reached
    pub finalized: BTreeSet<B>,
    /// slots skipped as a consequence of a finalisation
    pub impl_skipped: BTreeSet<u64>,
    /// end of the decided prefix
    pub watermark: u64,
    pub highest_direct: u64,
}

impl WModel {
    pub fn holds(&self, slot: u64, kind: CKind) -> bool {
        self.certs.get(&(slot, kind)).is_some_and(|s| !s.is_empty())
    }
    pub fn holds_block(&self, slot: u64, kind: CKind, tag: u64) -> bool {
        self.certs.get(&(slot, kind)).is_some_and(|s| s.contains(&tag))
    }
    pub fn hold(&mut self, slot: u64, kind: CKind, tag: u64) {
        self.certs.entry((slot, kind)).or_default().insert(if kind.has_hash() { tag } else { 0 });
    }

    pub fn closure(&self, last_slot: u64) -> Closure {
        let mut direct = BTreeSet::new();
        for ((slot, kind), tags) in &self.certs {
            match kind {
                CKind::FastFinal => {
                    for t in tags {
                        direct.insert((*slot, *t));
                    }
                }
                CKind::Final => {
                    if let Some(ts) = self.certs.get(&(*slot, CKind::Notar)) {
                        for t in ts {
                            direct.insert((*slot, *t));
                        }
                    }
                }
                _ => {}
            }
        }
        let mut finalized: BTreeSet<B> = direct.clone();
        let mut impl_skipped = BTreeSet::new();
        let mut stack: Vec<B> = direct.iter().copied().collect();
        while let Some(x) = stack.pop() {
            if let Some(p) = self.links.get(&x) {
                for t in p.0 + 1..x.0 {
                    impl_skipped.insert(t);
                }
                // genesis is finalised by definition; whether it is reported again is not specified
                if p.0 > 0 && finalized.insert(*p) {
                    stack.push(*p);
                }
            }
        }
        let fin_slots: BTreeSet<u64> = finalized.iter().map(|b| b.0).collect();
        let mut watermark = 0;
        while watermark < last_slot + 8 && (fin_slots.contains(&(watermark + 1)) || impl_skipped.contains(&(watermark + 1))) {
            watermark += 1;
        }
        let highest_direct = direct.iter().map(|b| b.0).max().unwrap_or(0);
        Closure { direct, finalized, impl_skipped, watermark, highest_direct }
    }

    /// Ready parents per window start, by the statement of C07.
    pub fn ready(&self, cl: &Closure, last_slot: u64) -> BTreeMap<u64, BTreeSet<B>> {
        let mut nf: BTreeSet<B> = BTreeSet::new();
        nf.insert((0, 0));
        for ((slot, kind), tags) in &self.certs {
            if matches!(kind, CKind::Notar | CKind::NotarFallback | CKind::FastFinal) {
                for t in tags {
                    nf.insert((*slot, *t));
                }
            }
        }
        nf.extend(cl.finalized.iter().copied());
        let skipped = |t: u64| self.holds(t, CKind::Skip) || cl.impl_skipped.contains(&t);
        let mut out = BTreeMap::new();
        let mut s = 4;
        while s <= last_slot + 5 {
            let mut set = BTreeSet::new();
            for b in &nf {
                if b.0 < s && (b.0 + 1..s).all(skipped) {
                    set.insert(*b);
                }
            }
            out.insert(s, set);
            s += 4;
        }
        out
    }
}

pub fn tag_of(hash: &alpenglow::crypto::merkle::BlockHash, world: &World) -> u64 {
    if hash == &alpenglow::crypto::merkle::GENESIS_BLOCK_HASH {
        return 0;
    }
    world.blocks.iter().map(|b| b.tag).find(|t| &block_hash(*t) == hash).unwrap_or(9999)
}

pub fn block_of(id: &alpenglow::BlockId, world: &World) -> B {
    (id.0.inner(), tag_of(&id.1, world))
}

pub struct Runner<'a> {
    pub case: &'a WorldCase,
    pub world: World,
    pub drv: PoolDriver,
    pub model: WModel,
    pub announced: BTreeSet<(u64, B)>,
    pub waiters: BTreeMap<u64, oneshot::Receiver<alpenglow::BlockId>>,
    pub waited: BTreeSet<u64>,
    pub log_seen: usize,
    pub max_finalized: u64,
    /// accepted own votes (spec) for C18
    pub own_votes: Vec<crate::fixtures::votes::VoteSpec>,
    pub out: Outcome,
    pub late_gap_closed: bool,
    pub cert_for_decided: bool,
    pub backward_pairs: bool,
    pub after_prune_pairs: bool,
}

impl<'a> Runner<'a> {
    pub fn new(case: &'a WorldCase) -> Self {
        let world = World::build(case);
        let own = pick_idx(case.own, case.stakes.len());
        Self {
            case,
            world,
            drv: PoolDriver::new(&case.stakes, own),
            model: WModel::default(),
            announced: BTreeSet::new(),
            waiters: BTreeMap::new(),
            waited: BTreeSet::new(),
            log_seen: 0,
            max_finalized: 0,
            own_votes: Vec::new(),
            out: Outcome::default(),
            late_gap_closed: false,
            cert_for_decided: false,
            backward_pairs: false,
            after_prune_pairs: false,
        }
    }

    fn absorb_certs(&mut self, call: &CallOutput) {
        for e in &call.events {
            if let PoolEvent::CertCreated(c) = e {
                let tag = c.block_hash().map(|h| tag_of(h, &self.world)).unwrap_or(0);
                self.model.hold(c.slot().inner(), cert_kind(c), tag);
            }
        }
    }

    /// Executes op `i`; returns false when the case must stop (violation or panic).
    pub fn step(&mut self, i: usize, id: &str, focus: Focus) -> bool {
        let n_ops = self.case.ops.len();
        let op = self.case.ops[i].clone();
        let before = self.model.closure(self.world.last_slot);
        let ready_before = self.model.ready(&before, self.world.last_slot);
        let call: CallOutput;
        let mut op_slot: Option<u64> = None;
        let mut verdict_oob: Option<bool> = None;
        let desc;
        // hand-written direct ops are resolved to the generated form
        let op = match op {
            WOp::CertFor(slot, kind) => match self.world.items.iter().position(|it| it.slot == slot && it.kind == kind) {
                Some(p) => WOp::Cert(u16::MAX - p as u16),
                None => return true,
            },
            WOp::LinkFor(slot) => match self.world.blocks.iter().position(|b| b.slot == slot) {
                Some(p) => WOp::Link(u16::MAX - p as u16),
                None => return true,
            },
            o => o,
        };
        let direct = matches!(self.case.ops[i], WOp::CertFor(..) | WOp::LinkFor(..));
        match &op {
            WOp::Cert(raw) => {
                if self.world.items.is_empty() {
                    return true;
                }
                let idx = if direct { (u16::MAX - *raw) as usize } else { progressive_idx(i, n_ops, *raw, self.world.items.len(), self.case.spread) };
                let item = self.world.items[idx].clone();
                let spec = item.cert_spec();
                if spec.primary.is_empty() && !matches!(spec.kind, CKind::NotarFallback | CKind::Skip) {
                    return true;
                }
                if spec.primary.is_empty() && spec.fallback.is_empty() {
                    return true;
                }
                desc = format!("add_cert {:?} slot {} tag {}", spec.kind, spec.slot, spec.block);
                op_slot = Some(spec.slot);
                if before.finalized.iter().any(|b| b.0 == spec.slot) || before.impl_skipped.contains(&spec.slot) {
                    self.cert_for_decided = true;
                }
                match self.drv.add_cert_spec(&spec) {
                    Ok((verdict, c)) => {
                        if let Some(Err(e)) = &verdict {
                            verdict_oob = Some(e.contains("OutOfBounds"));
                        } else if verdict.is_some() {
                            verdict_oob = Some(false);
                        }
                        call = c;
                    }
                    Err(e) => {
                        self.out.violate(format!("{id}/fixture-cert-rejected"), format!("step {i} {desc}: {e}"));
                        return false;
                    }
                }
            }
            WOp::Vote(raw, pos) => {
                if self.world.items.is_empty() {
                    return true;
                }
                let idx = progressive_idx(i, n_ops, *raw, self.world.items.len(), self.case.spread);
                let item = &self.world.items[idx];
                let Some(spec) = item.vote(*pos as usize) else { return true };
                desc = format!("add_vote {spec:?}");
                op_slot = Some(spec.slot);
                let (verdict, c) = self.drv.add_vote(spec);
                if let Some(v) = &verdict {
                    verdict_oob = Some(matches!(v, Err(alpenglow::consensus::AddVoteError::SlotOutOfBounds)));
                    if v.is_ok() && spec.signer == self.drv.own {
                        self.own_votes.push(spec);
                    }
                }
                call = c;
            }
            WOp::Link(raw) => {
                if self.world.blocks.is_empty() {
                    return true;
                }
                let idx = if direct { (u16::MAX - *raw) as usize } else { progressive_idx(i, n_ops, *raw, self.world.blocks.len(), self.case.spread) };
                let b = self.world.blocks[idx].clone();
                desc = format!("add_block ({},{}) parent {:?}", b.slot, b.tag, b.parent);
                call = self.drv.add_block(bid(b.slot, b.tag), bid(b.parent.0, b.parent.1));
                self.model.links.insert((b.slot, b.tag), b.parent);
            }
            WOp::Wait(raw) => {
                let windows = (self.world.last_slot + 1) / 4 + 1;
                let s = 4 * (1 + pick_idx(*raw, windows as usize - 1 + 1) as u64).min(windows);
                let wm = self.drv.pool.verif_first_unpruned_slot().inner();
                if s <= wm || !self.waited.insert(s) {
                    return true;
                }
                desc = format!("wait_for_parent_ready({s})");
                let pool = &mut self.drv.pool;
                let res = crate::engine::catch(|| pool.wait_for_parent_ready(Slot::new(s)));
                match res {
                    Err(p) => {
                        self.out.violate(format!("{id}/wait_for_parent_ready/panic/{}", panic_msg(&p)), format!("step {i} {desc}: {p}"));
                        return false;
                    }
                    Ok(Either::Left(b)) => {
                        let got = block_of(&b, &self.world);
                        let rd = ready_before.get(&s).cloned().unwrap_or_default();
                        if focus == Focus::Parents {
                            let min_slot = rd.iter().map(|x| x.0).min();
                            self.out.check(rd.contains(&got) && Some(got.0) == min_slot, "C07/waiter/immediate-answer-wrong", || {
                                format!("step {i} {desc}: answered {got:?}, ready set by the statement {rd:?}")
                            });
                        }
                    }
                    Ok(Either::Right(rx)) => {
                        if focus == Focus::Parents {
                            let rd = ready_before.get(&s).cloned().unwrap_or_default();
                            self.out.check(rd.is_empty(), "C07/waiter/not-answered-although-ready", || {
                                format!("step {i} {desc}: ready set by the statement {rd:?}")
                            });
                        }
                        self.waiters.insert(s, rx);
                    }
                }
                return !self.out.failed();
            }
            WOp::Standstill => {
                if id == "C18" {
                    self.standstill_check(i);
                }
                return !self.out.failed();
            }
            WOp::CertFor(..) | WOp::LinkFor(..) => unreachable!(),
        }

        if let Some(p) = &call.panic {
            self.out.violate(format!("{id}/panic/{}/{}", panic_site(p), panic_msg(p)), format!("step {i} {desc}: {p}"));
            return false;
        }
        self.absorb_certs(&call);
        let after = self.model.closure(self.world.last_slot);
        let ready_after = self.model.ready(&after, self.world.last_slot);
        let wm_pool = self.drv.pool.verif_first_unpruned_slot().inner();
        let log_len = self.drv.pool.verif_fin_log().len();
        let finalization_in_call = self.drv.pool.verif_fin_log()[self.log_seen..]
            .iter()
            .any(|(f, i, s)| f.is_some() || !i.is_empty() || !s.is_empty());
        self.log_seen = log_len;
        if after.watermark >= before.watermark + 2 {
            self.late_gap_closed = true;
        }

        match focus {
            Focus::Parents => self.check_parents(i, &desc, &ready_before, &ready_after, &after, &call, wm_pool, finalization_in_call),
            Focus::Finality => self.check_finality(i, &desc, &before, &after, op_slot, verdict_oob, wm_pool),
            Focus::Standstill => {}
        }
        !self.out.failed()
    }

    /// C18: trigger standstill recovery now and judge the bundle.
    fn standstill_check(&mut self, i: usize) {
        use alpenglow::consensus::{Cert, ValidatedCert, ValidatedVote, Vote};
        let call = self.drv.recover_from_standstill();
        if let Some(p) = &call.panic {
            self.out.violate(format!("C18/recover_from_standstill/panic/{}", panic_msg(p)), format!("step {i}: {p}"));
            return;
        }
        let bundles: Vec<(u64, Vec<Cert>, Vec<Vote>)> = call
            .events
            .iter()
            .filter_map(|e| if let PoolEvent::Standstill(s, c, v) = e { Some((s.inner(), c.clone(), v.clone())) } else { None })
            .collect();
        if !self.out.check(bundles.len() == 1 && call.events.len() == 1, "C18/not-exactly-one-bundle", || format!("step {i}: events {:?}", call.events.len())) {
            return;
        }
        let (slot, certs, votes) = &bundles[0];
        let f = self.drv.finalized_slot();
        self.out.check(*slot == f + 1, "C18/bundle-slot", || format!("step {i}: bundle slot {slot}, finalized {f}"));
        let have: BTreeSet<(u64, CKind, u64)> =
            certs.iter().map(|c| (c.slot().inner(), cert_kind(c), c.block_hash().map(|h| tag_of(h, &self.world)).unwrap_or(0))).collect();
        self.out.check(have.len() == certs.len(), "C18/bundle-duplicate-cert", || format!("step {i}: {have:?}"));
        // (a) proof of the highest finalised slot
        if f > 0 {
            let ff = have.iter().any(|(s, k, _)| *s == f && *k == CKind::FastFinal);
            let slow = have.iter().any(|(s, k, _)| *s == f && *k == CKind::Final) && have.iter().any(|(s, k, _)| *s == f && *k == CKind::Notar);
            self.out.check(ff || slow, "C18/bundle-lacks-finality-proof", || format!("step {i}: finalized {f}, bundle certs {have:?}"));
            if ff {
                self.out.label("proof=fast-final");
            } else if slow {
                self.out.label("proof=final+notar");
            }
        } else {
            self.out.label("finalized=genesis");
        }
        // (b) every certificate held for later slots
        let mut later = 0;
        for ((s, k), tags) in &self.model.certs {
            if *s <= f {
                continue;
            }
            for t in tags {
                later += 1;
                self.out.check(have.contains(&(*s, *k, *t)), &format!("C18/bundle-misses-held-cert/{k:?}"), || {
                    format!("step {i}: pool holds {k:?} for slot {s} block {t} (> finalized {f}) but the bundle has {have:?}")
                });
            }
        }
        // nothing in the bundle that the pool was never told
        for (s, k, t) in &have {
            self.out.check(self.model.holds_block(*s, *k, *t) || (!k.has_hash() && self.model.holds(*s, *k)), "C18/bundle-invents-cert", || {
                format!("step {i}: bundle has {k:?} slot {s} block {t}")
            });
        }
        // (c) own votes for later slots
        let own = self.drv.own;
        let bundle_votes: BTreeSet<(crate::fixtures::votes::VKind, u64, u64, usize)> = votes
            .iter()
            .map(|v| {
                let c = crate::fixtures::votes::classify_vote(v);
                (c.kind, c.slot, c.hash.map(|h| tag_of(&h, &self.world)).unwrap_or(0), c.signer)
            })
            .collect();
        let mut own_later = 0;
        for v in &self.own_votes {
            if v.slot <= f {
                continue;
            }
            own_later += 1;
            let key = (v.kind, v.slot, if v.kind.has_hash() { v.block } else { 0 }, own);
            self.out.check(bundle_votes.contains(&key), &format!("C18/bundle-misses-own-vote/{}", v.kind.short()), || {
                format!("step {i}: own accepted vote {v:?} (> finalized {f}) missing; bundle votes {bundle_votes:?}")
            });
        }
        for (_, _, _, signer) in &bundle_votes {
            self.out.check(*signer == own, "C18/bundle-foreign-vote", || format!("step {i}: vote of validator {signer} in bundle of {own}"));
        }
        // (d) everything validates at a receiver; (e) a fresh node catches up from the bundle alone
        let n = self.case.stakes.len();
        let mut fresh = PoolDriver::new(&self.case.stakes, (own + 1) % n);
        for c in certs {
            match ValidatedCert::try_new(c.clone(), self.drv.epoch()) {
                Ok(vc) => {
                    let (_, out) = fresh.add_cert(vc);
                    if let Some(p) = out.panic {
                        self.out.violate(format!("C18/receiver-panic/{}", panic_msg(&p)), format!("step {i}: {p}"));
                        return;
                    }
                }
                Err(e) => self.out.violate("C18/bundle-cert-invalid", format!("step {i}: {:?} slot {}: {e}", cert_kind(c), c.slot().inner())),
            }
            self.out.checks += 1;
        }
        for v in votes {
            match ValidatedVote::try_new(v.clone(), self.drv.epoch()) {
                Ok(vv) => {
                    let (_, out) = fresh.add_validated_vote(vv);
                    if let Some(p) = out.panic {
                        self.out.violate(format!("C18/receiver-panic/{}", panic_msg(&p)), format!("step {i}: {p}"));
                        return;
                    }
                }
                Err(e) => self.out.violate("C18/bundle-vote-invalid", format!("step {i}: {e}")),
            }
            self.out.checks += 1;
        }
        let ff = fresh.finalized_slot();
        self.out.check(ff == f, "C18/receiver-finalized-slot-differs", || format!("step {i}: sender finalized {f}, fresh receiver {ff}; bundle certs {have:?}"));
        let next_window = (f / 4 + 1) * 4;
        let mine: BTreeSet<B> = self.drv.pool.parents_ready(Slot::new(next_window)).iter().map(|b| block_of(b, &self.world)).collect();
        let theirs: BTreeSet<B> = fresh.pool.parents_ready(Slot::new(next_window)).iter().map(|b| block_of(b, &self.world)).collect();
        self.out.check(mine == theirs, "C18/receiver-ready-parents-differ", || {
            format!("step {i}: window {next_window}: sender {mine:?}, fresh receiver {theirs:?}; bundle certs {have:?}")
        });
        // (f) the voting component forwards the whole bundle even when it has pruned ahead
        let forwarded = forward_through_votor(&self.case.stakes, own, *slot, certs, votes, self.world.last_slot);
        match forwarded {
            Err(p) => self.out.violate(format!("C18/votor-panic/{}", panic_msg(&p)), format!("step {i}: {p}")),
            Ok(n_forwarded) => {
                self.out.check(n_forwarded == certs.len() + votes.len(), "C18/votor-does-not-forward-bundle", || {
                    format!("step {i}: bundle of {} certs + {} votes, votor re-broadcast {n_forwarded} of them", certs.len(), votes.len())
                });
            }
        }
        if f > 0 && (later > 0 || own_later > 0) {
            self.out.nontrivial = true;
        }
        self.out.label("standstill");
    }

    #[allow(clippy::too_many_arguments)]
    fn check_parents(
        &mut self,
        i: usize,
        desc: &str,
        ready_before: &BTreeMap<u64, BTreeSet<B>>,
        ready_after: &BTreeMap<u64, BTreeSet<B>>,
        after: &Closure,
        call: &CallOutput,
        wm_pool: u64,
        finalization_in_call: bool,
    ) {
        // announcements of this call
        let mut events: Vec<(u64, B)> = Vec::new();
        for e in &call.events {
            if let PoolEvent::ParentReady { slot, parent } = e {
                events.push((slot.inner(), block_of(parent, &self.world)));
            }
        }
        let mut new_pairs: BTreeSet<(u64, B)> = BTreeSet::new();
        for (s, set) in ready_after {
            let old = ready_before.get(s).cloned().unwrap_or_default();
            for b in set.difference(&old) {
                new_pairs.insert((*s, *b));
            }
        }
        for ev in &events {
            self.out.checks += 1;
            if !ev.0.is_multiple_of(4) {
                self.out.violate("C07/announced/not-window-start", format!("step {i} {desc}: {ev:?}"));
            }
            let ok_now = ready_after.get(&ev.0).is_some_and(|s| s.contains(&ev.1));
            if !ok_now {
                self.out.violate(
                    "C07/announced/not-ready-by-statement",
                    format!("step {i} {desc}: announced {ev:?} but the certificates held do not make it a certified, skip-connected parent; ready({}) = {:?}", ev.0, ready_after.get(&ev.0)),
                );
            }
            if !self.announced.insert(*ev) {
                self.out.violate("C07/announced/twice", format!("step {i} {desc}: {ev:?} announced again"));
            } else if ok_now && !new_pairs.contains(ev) && ev.0 > wm_pool {
                self.out.violate("C07/announced/late", format!("step {i} {desc}: {ev:?} became ready in an earlier call"));
            }
        }
        // completeness
        let relevant: BTreeSet<(u64, B)> = new_pairs.iter().filter(|(s, _)| *s > after.watermark.max(wm_pool)).copied().collect();
        if !finalization_in_call {
            for p in &relevant {
                self.out.checks += 1;
                if !events.contains(p) {
                    self.out.violate(
                        "C07/not-announced",
                        format!("step {i} {desc}: {p:?} became a ready parent in this call (no finalisation involved) but was not announced; announced {events:?}"),
                    );
                }
            }
        } else if let Some(smax) = relevant.iter().map(|p| p.0).max() {
            // a finalisation step announces (at least) the highest window that gained a parent
            self.out.checks += 1;
            let any = relevant.iter().filter(|p| p.0 == smax).any(|p| events.contains(p) || self.announced.contains(p));
            if !any {
                self.out.violate(
                    "C07/not-announced/after-finalisation",
                    format!("step {i} {desc}: window {smax} gained parents {:?} through a finalisation but none was announced; announced {events:?}", relevant),
                );
            }
        }
        if !relevant.is_empty() {
            self.out.label("new-ready-pairs");
            if desc.contains("Skip") {
                self.backward_pairs = true;
                self.out.label("pair-through-late-skip");
            }
            if wm_pool > 0 {
                self.after_prune_pairs = true;
                self.out.label("pair-after-pruning");
            }
        }
        // query agreement for every live window start
        for (s, want) in ready_after {
            if *s <= wm_pool.max(after.watermark) {
                continue;
            }
            let got: Vec<B> = self.drv.pool.parents_ready(Slot::new(*s)).iter().map(|b| block_of(b, &self.world)).collect();
            let got_set: BTreeSet<B> = got.iter().copied().collect();
            self.out.checks += 1;
            if got_set.len() != got.len() {
                self.out.violate("C07/query/duplicate-entry", format!("step {i} {desc}: parents_ready({s}) = {got:?}"));
            }
            if &got_set != want {
                let class = if got_set.is_subset(want) { "missing" } else { "unjustified" };
                self.out.violate(
                    format!("C07/query/{class}"),
                    format!("step {i} {desc}: parents_ready({s}) = {got_set:?}, statement gives {want:?} (pool watermark {wm_pool})"),
                );
            }
        }
        // waiters
        let slots: Vec<u64> = self.waiters.keys().copied().collect();
        for s in slots {
            if s <= wm_pool {
                self.waiters.remove(&s);
                continue;
            }
            let want = ready_after.get(&s).cloned().unwrap_or_default();
            let rx = self.waiters.get_mut(&s).unwrap();
            match rx.try_recv() {
                Ok(b) => {
                    let got = block_of(&b, &self.world);
                    self.out.check(want.contains(&got), "C07/waiter/woken-with-non-ready-parent", || {
                        format!("step {i} {desc}: waiter for {s} got {got:?}, ready {want:?}")
                    });
                    self.out.label("waiter-woken");
                    self.waiters.remove(&s);
                }
                Err(oneshot::error::TryRecvError::Empty) => {
                    self.out.check(want.is_empty(), "C07/waiter/not-woken", || {
                        format!("step {i} {desc}: window {s} has ready parents {want:?} but the registered waiter was not woken")
                    });
                }
                Err(oneshot::error::TryRecvError::Closed) => {
                    self.out.violate("C07/waiter/dropped", format!("step {i} {desc}: waiter for live window {s} was dropped (pool watermark {wm_pool})"));
                    self.waiters.remove(&s);
                }
            }
        }
    }

    #[allow(clippy::too_many_arguments)]
    fn check_finality(&mut self, i: usize, desc: &str, before: &Closure, after: &Closure, op_slot: Option<u64>, verdict_oob: Option<bool>, wm_pool: u64) {
        let out = &mut self.out;
        // bounds: nothing older than the decided prefix is accepted, everything else is
        if let (Some(slot), Some(oob)) = (op_slot, verdict_oob) {
            out.checks += 1;
            if slot < before.watermark && !oob {
                out.violate("C08/accepts-below-watermark", format!("step {i} {desc}: slot {slot} is below the decided prefix end {} but was not refused as out of bounds", before.watermark));
            }
            if slot >= before.watermark && oob {
                out.violate("C08/refuses-undecided-slot", format!("step {i} {desc}: slot {slot} is not below the decided prefix end {} but was refused as out of bounds", before.watermark));
            }
        }
        // highest finalised slot
        let fs = self.drv.finalized_slot();
        out.check(fs == after.highest_direct, "C08/finalized_slot/differs", || {
            format!("step {i} {desc}: finalized_slot() = {fs}, certificates held finalise directly up to {} ({:?})", after.highest_direct, after.direct)
        });
        out.check(fs >= self.max_finalized, "C08/finalized_slot/decreased", || format!("step {i} {desc}: {} -> {fs}", self.max_finalized));
        self.max_finalized = self.max_finalized.max(fs);
        // finalisation log == closure, each once
        let mut fin_blocks: Vec<B> = Vec::new();
        let mut skipped: Vec<u64> = Vec::new();
        for (f, imp, sk) in self.drv.pool.verif_fin_log() {
            if let Some(f) = f {
                fin_blocks.push(block_of(f, &self.world));
            }
            for b in imp {
                fin_blocks.push(block_of(b, &self.world));
            }
            for s in sk {
                skipped.push(s.inner());
            }
        }
        fin_blocks.retain(|b| b.0 > 0);
        let fin_set: BTreeSet<B> = fin_blocks.iter().copied().collect();
        let skip_set: BTreeSet<u64> = skipped.iter().copied().collect();
        out.check(fin_set.len() == fin_blocks.len(), "C08/finalised-block-reported-twice", || format!("step {i} {desc}: {fin_blocks:?}"));
        out.check(skip_set.len() == skipped.len(), "C08/skipped-slot-reported-twice", || format!("step {i} {desc}: {skipped:?}"));
        if fin_set != after.finalized {
            let class = if fin_set.is_subset(&after.finalized) { "missing" } else { "unjustified" };
            out.violate(
                format!("C08/finalised-set/{class}"),
                format!("step {i} {desc}: pool reported finalised {fin_set:?}; certificates and links known give {:?}", after.finalized),
            );
        }
        out.checks += 1;
        if skip_set != after.impl_skipped {
            let class = if skip_set.is_subset(&after.impl_skipped) { "missing" } else { "unjustified" };
            out.violate(
                format!("C08/implicitly-skipped-set/{class}"),
                format!("step {i} {desc}: pool reported skipped {skip_set:?}; known links give {:?}", after.impl_skipped),
            );
        }
        out.checks += 1;
        // watermark equality: nothing discarded early, nothing retained late
        out.check(wm_pool == after.watermark, if wm_pool < after.watermark { "C08/watermark/lags" } else { "C08/watermark/ahead" }, || {
            format!("step {i} {desc}: pool prunes below {wm_pool}, decided prefix ends at {} (finalised {:?}, skipped {:?})", after.watermark, after.finalized, after.impl_skipped)
        });
        // retained state
        let names = ["slot states", "finality status", "finality parents", "parent-ready states", "waiting safe-to-notar parents"];
        for (k, (min, len)) in self.drv.pool.verif_retained().iter().enumerate() {
            if let Some(min) = min {
                out.check(min.inner() >= wm_pool, &format!("C08/retains-below-watermark/{}", names[k].replace(' ', "-")), || {
                    format!("step {i} {desc}: {} keeps slot {} ({} entries) although everything below {wm_pool} is decided", names[k], min.inner(), len)
                });
            }
        }
        // queries for retained slots agree with the certificates held
        for s in wm_pool.max(1)..=self.world.last_slot {
            let slot = Slot::new(s);
            let m = &self.model;
            let q = [
                ("has_final_cert", self.drv.pool.has_final_cert(slot), m.holds(s, CKind::Final) || m.holds(s, CKind::FastFinal)),
                ("has_notar_cert", self.drv.pool.has_notar_cert(slot), m.holds(s, CKind::Notar)),
                ("has_skip_cert", self.drv.pool.has_skip_cert(slot), m.holds(s, CKind::Skip)),
            ];
            for (name, got, want) in q {
                self.out.check(got == want, "C08/query/changed-by-pruning", || format!("step {i} {desc}: {name}({s}) = {got}, certificates held say {want} (watermark {wm_pool})"));
            }
            let nb = self.drv.pool.get_notarized_block(slot).map(|h| tag_of(h, &self.world));
            let want = self.model.certs.get(&(s, CKind::Notar)).and_then(|t| t.iter().next().copied());
            self.out.check(nb == want, "C08/query/notarized-block", || format!("step {i} {desc}: get_notarized_block({s}) = {nb:?}, held {want:?}"));
        }
    }
}

/// Feeds a Standstill event to a real Votor that has already seen a (slow) final certificate far
/// ahead of the bundle's slot; returns how many of the bundle's messages it re-broadcast.
fn forward_through_votor(
    stakes: &[u64],
    own: usize,
    slot: u64,
    certs: &[alpenglow::consensus::Cert],
    votes: &[alpenglow::consensus::Vote],
    last_slot: u64,
) -> Result<usize, String> {
    use std::sync::Arc;

    use alpenglow::ValidatorIndex;
    use alpenglow::consensus::{ConsensusMessage, Votor};
    use crate::fixtures::net::{RecAll2All, settle, with_runtime};
    use crate::fixtures::votes::{CertSpec, make_cert};
    use crate::fixtures::{epoch::validator_infos, keys};

    let infos = validator_infos(stakes);
    let n = stakes.len();
    // a final certificate two windows beyond everything in the world
    let far = (last_slot / 4 + 3) * 4 + 1;
    let far_cert = make_cert(&CertSpec { kind: CKind::Final, slot: far, block: 0, primary: (0..n).collect(), fallback: vec![] }, &infos);
    let event = PoolEvent::Standstill(Slot::new(slot), certs.to_vec(), votes.to_vec());
    let wire = |m: &ConsensusMessage| wincode::serialize(m).unwrap_or_default();
    let expected: Vec<Vec<u8>> = certs.iter().map(|c| wire(&ConsensusMessage::Cert(c.clone()))).chain(votes.iter().map(|v| wire(&ConsensusMessage::Vote(v.clone())))).collect();
    crate::engine::catch(|| {
        with_runtime(true, 7, async move {
            let a2a = Arc::new(RecAll2All::default());
            let (ptx, prx) = tokio::sync::mpsc::channel(64);
            let (_btx, brx) = tokio::sync::mpsc::channel(64);
            let mut votor = Votor::new(ValidatorIndex::new(own as u64), keys().vote[own].clone(), prx, brx, a2a.clone());
            let task = tokio::spawn(async move { votor.voting_loop().await });
            ptx.send(PoolEvent::CertCreated(far_cert)).await.expect("votor alive");
            let a = a2a.clone();
            settle(|| a.len(), 8).await;
            a2a.take();
            ptx.send(event).await.expect("votor alive");
            let a = a2a.clone();
            settle(|| a.len(), 8).await;
            let sent: Vec<Vec<u8>> = a2a.take().iter().map(wire).collect();
            let died = task.is_finished();
            task.abort();
            if died {
                return 0;
            }
            expected.iter().filter(|e| sent.contains(e)).count()
        })
    })
}
