//! C15 — Merkle proofs verify exactly for the leaf at the stated position.
//!
//! Oracle: an independent reference implementation of the padded tree (labels and empty-subtree
//! roots re-derived from their definition) gives the root, every path and therefore the
//! *semantic* truth of any (leaf, index, root, proof) tuple derived from a real tree by
//! mutations: it verifies iff root is the tree's root, |proof| = height, index < width, leaf is
//! the padded leaf at index and proof is that leaf's path.

use alpenglow::crypto::hash::hash_all;
use alpenglow::crypto::merkle::{
    DoubleMerkleProof, DoubleMerkleRoot, MerkleLeaf, MerkleProof, MerkleRoot, MerkleTree, SliceProof, SliceRoot,
};
use alpenglow::crypto::{Hash, hash};
use proptest::prelude::*;
use serde::{Deserialize, Serialize};

use crate::engine::{Outcome, Property, Tier, catch, panic_msg, panic_site, pick_idx};

const LEAF_LABEL: [u8; 32] = *b"ALPENGLOW-MERKLE-TREE  LEAF-NODE";
const LEFT_LABEL: [u8; 32] = *b"ALPENGLOW-MERKLE-TREE  LEFT-NODE";
const RIGHT_LABEL: [u8; 32] = *b"ALPENGLOW-MERKLE-TREE RIGHT-NODE";

fn ref_leaf(data: &[u8]) -> Hash {
    hash_all(&[&LEAF_LABEL, data])
}
fn ref_pair(l: &Hash, r: &Hash) -> Hash {
    hash_all(&[&LEFT_LABEL, l.as_ref(), &RIGHT_LABEL, r.as_ref()])
}

/// Reference tree over the fully padded leaf list.
struct RefTree {
    /// levels[0] = padded leaf hashes (width 2^height), last level = [root]
    levels: Vec<Vec<Hash>>,
    height: usize,
}

impl RefTree {
    fn new(leaves: &[Vec<u8>]) -> Self {
        let n = leaves.len();
        let height = if n <= 1 { 0 } else { (n - 1).ilog2() as usize + 1 };
        let width = 1usize << height;
        let empty = ref_leaf(&[]);
        let mut level: Vec<Hash> = leaves.iter().map(|l| ref_leaf(l)).collect();
        level.resize(width, empty);
        let mut levels = vec![level];
        while levels.last().unwrap().len() > 1 {
            let prev = levels.last().unwrap();
            let next: Vec<Hash> = prev.chunks(2).map(|c| ref_pair(&c[0], &c[1])).collect();
            levels.push(next);
        }
        Self { levels, height }
    }
    fn root(&self) -> Hash {
        self.levels.last().unwrap()[0].clone()
    }
    fn width(&self) -> usize {
        1 << self.height
    }
    fn path(&self, index: usize) -> Vec<Hash> {
        let mut i = index;
        let mut p = Vec::new();
        for h in 0..self.height {
            p.push(self.levels[h][i ^ 1].clone());
            i /= 2;
        }
        p
    }
}

fn empty_root(h: usize) -> Hash {
    let mut e = ref_leaf(&[]);
    for _ in 0..h {
        e = ref_pair(&e, &e);
    }
    e
}

#[derive(Clone, Copy, Debug, PartialEq, Eq, Serialize, Deserialize)]
pub enum TreeKind {
    Plain,
    Slice,
    Double,
}

#[derive(Clone, Debug, Serialize, Deserialize)]
pub enum LeafMut {
    Other(u64),
    Empty,
    LeafAt(u16),
}

#[derive(Clone, Debug, Serialize, Deserialize)]
pub enum IndexMut {
    Plus1,
    Minus1,
    /// index + k * width (aliasing beyond the tree's width)
    AliasUp(u8),
    /// flip bit h of the index (h taken modulo height)
    FlipBit(u8),
    Random20(u32),
    MaxAdjacent(u8),
    HighBit(u8),
    Set(u16),
}

#[derive(Clone, Debug, Serialize, Deserialize)]
pub enum ProofFill {
    CanonicalEmpty,
    Random(u64),
    DupLast,
}

#[derive(Clone, Debug, Serialize, Deserialize)]
pub enum Mutation {
    Leaf(LeafMut),
    Index(IndexMut),
    RootRandom(u64),
    RootInner(u16),
    ElemRandom { pos: u16, seed: u64 },
    ElemSwap { a: u16, b: u16 },
    ElemEmpty { pos: u16 },
    Truncate(u8),
    Extend(u8, ProofFill),
    SetLen(u8, ProofFill),
    PathOf(u16),
}

impl Mutation {
    fn class(&self) -> &'static str {
        match self {
            Mutation::Leaf(_) => "leaf",
            Mutation::Index(IndexMut::AliasUp(_)) => "index-alias-up",
            Mutation::Index(IndexMut::HighBit(_)) => "index-high-bit",
            Mutation::Index(IndexMut::MaxAdjacent(_)) => "index-max-adjacent",
            Mutation::Index(IndexMut::Random20(_)) => "index-random20",
            Mutation::Index(_) => "index-near",
            Mutation::RootRandom(_) | Mutation::RootInner(_) => "root",
            Mutation::ElemRandom { .. } | Mutation::ElemSwap { .. } | Mutation::ElemEmpty { .. } => "proof-elem",
            Mutation::Truncate(_) => "proof-truncate",
            Mutation::Extend(..) => "proof-extend",
            Mutation::SetLen(..) => "proof-setlen",
            Mutation::PathOf(_) => "proof-other-path",
        }
    }
}

#[derive(Clone, Debug, Serialize, Deserialize)]
pub struct Case {
    pub kind: TreeKind,
    pub n: usize,
    pub seed: u64,
    /// positions (raw) of explicit empty leaves (Plain/Slice only)
    pub empties: Vec<u16>,
    /// number of trailing explicit empty leaves appended (Plain/Slice only)
    pub trailing_empty: usize,
    pub index: u16,
    pub muts: Vec<Mutation>,
    /// `Some`: instead of a materialised tree, a *virtual* tree of the given height (up to beyond
    /// the supported maximum of 32) defined by one leaf, its index and its sibling path
    #[serde(default)]
    pub deep: Option<Deep>,
}

/// A leaf, an index below 2^height and `height` sibling hashes define the root of a virtual
/// tree for which (leaf, index, root, siblings) is, by construction, the honest proof tuple.
#[derive(Clone, Debug, Serialize, Deserialize)]
pub struct Deep {
    pub height: u8,
    pub index_bits: u64,
    /// all siblings to the right of the path are canonical empty subtrees (the leaf is the last)
    pub last: bool,
    pub muts: Vec<DeepMut>,
}

#[derive(Clone, Debug, Serialize, Deserialize)]
pub enum DeepMut {
    Extend(u8, ProofFill),
    Truncate(u8),
    /// index + k * 2^height
    AliasUp(u8),
    FlipBit(u8),
    ElemRandom(u8, u64),
    LeafOther(u64),
}

fn leaf_bytes(seed: u64, i: usize) -> Vec<u8> {
    let h = hash(&[seed.to_le_bytes().as_slice(), &(i as u64).to_le_bytes()].concat());
    let len = 1 + (h.as_ref()[0] as usize % 40);
    let mut v = h.as_ref().to_vec();
    v.extend_from_slice(h.as_ref());
    v.truncate(len);
    v
}

fn rand_hash(seed: u64) -> Hash {
    hash(&[b"rnd".as_slice(), &seed.to_le_bytes()].concat())
}

fn n_strategy(tier: Tier) -> BoxedStrategy<usize> {
    let max = tier.pick(1024usize, 1024);
    prop_oneof![
        4 => 1usize..=16,
        4 => 1usize..=max,
        3 => (0u32..=12, 0usize..3).prop_map(|(p, d)| ((1usize << p) + d).saturating_sub(1).max(1)),
    ]
    .boxed()
}

fn mutation_strategy() -> BoxedStrategy<Mutation> {
    let fill = prop_oneof![
        Just(ProofFill::CanonicalEmpty),
        any::<u64>().prop_map(ProofFill::Random),
        Just(ProofFill::DupLast)
    ];
    prop_oneof![
        2 => prop_oneof![
            any::<u64>().prop_map(LeafMut::Other),
            Just(LeafMut::Empty),
            any::<u16>().prop_map(LeafMut::LeafAt)
        ].prop_map(Mutation::Leaf),
        6 => prop_oneof![
            Just(IndexMut::Plus1),
            Just(IndexMut::Minus1),
            (1u8..=5).prop_map(IndexMut::AliasUp),
            (1u8..=5).prop_map(IndexMut::AliasUp),
            any::<u8>().prop_map(IndexMut::FlipBit),
            (0u32..(1 << 20)).prop_map(IndexMut::Random20),
            (0u8..4).prop_map(IndexMut::MaxAdjacent),
            (11u8..64).prop_map(IndexMut::HighBit),
            any::<u16>().prop_map(IndexMut::Set),
        ].prop_map(Mutation::Index),
        1 => any::<u64>().prop_map(Mutation::RootRandom),
        1 => any::<u16>().prop_map(Mutation::RootInner),
        2 => (any::<u16>(), any::<u64>()).prop_map(|(pos, seed)| Mutation::ElemRandom { pos, seed }),
        1 => (any::<u16>(), any::<u16>()).prop_map(|(a, b)| Mutation::ElemSwap { a, b }),
        1 => any::<u16>().prop_map(|pos| Mutation::ElemEmpty { pos }),
        2 => (1u8..=3).prop_map(Mutation::Truncate),
        2 => ((1u8..=3), fill.clone()).prop_map(|(k, f)| Mutation::Extend(k, f)),
        2 => ((0u8..=34), fill).prop_map(|(k, f)| Mutation::SetLen(k, f)),
        1 => any::<u16>().prop_map(Mutation::PathOf),
    ]
    .boxed()
}

fn deep_strategy() -> BoxedStrategy<Deep> {
    let fill = prop_oneof![Just(ProofFill::CanonicalEmpty), any::<u64>().prop_map(ProofFill::Random), Just(ProofFill::DupLast)];
    let m = prop_oneof![
        3 => ((1u8..=4), fill).prop_map(|(k, f)| DeepMut::Extend(k, f)),
        1 => (1u8..=3).prop_map(DeepMut::Truncate),
        2 => (1u8..=3).prop_map(DeepMut::AliasUp),
        1 => any::<u8>().prop_map(DeepMut::FlipBit),
        1 => (any::<u8>(), any::<u64>()).prop_map(|(p, s)| DeepMut::ElemRandom(p, s)),
        1 => any::<u64>().prop_map(DeepMut::LeafOther),
    ];
    (
        prop_oneof![2 => 0u8..=12, 2 => 13u8..=31, 4 => Just(32u8), 1 => 33u8..=40],
        prop_oneof![1 => Just(0u64), 1 => Just(u64::MAX), 3 => any::<u64>()],
        any::<bool>(),
        prop::collection::vec(m, 0..=2),
    )
        .prop_map(|(height, index_bits, last, muts)| Deep { height, index_bits, last, muts })
        .boxed()
}

/// Virtual trees: heights up to (and beyond) the supported maximum without materialising leaves.
fn run_deep(case: &Case, d: &Deep) -> Outcome {
    use alpenglow::crypto::merkle::{MAX_MERKLE_TREE_HEIGHT, PlainMerkleTree};
    let mut out = Outcome::default();
    let h = d.height as usize;
    out.label(format!("deep-height={}", if h == 32 { "32".to_string() } else if h > 32 { ">32".to_string() } else { "<32".to_string() }));
    let index: u128 = if h >= 64 { d.index_bits as u128 } else { (d.index_bits as u128) & ((1u128 << h) - 1) };
    let index = index as u64;
    let leaf = leaf_bytes(case.seed, 3);
    // siblings: right-hand ones are empty subtrees when `last`, everything else pseudo-random
    let sibs: Vec<Hash> = (0..h)
        .map(|j| {
            let right = (index >> j) & 1 == 0;
            if right && d.last { empty_root(j) } else { rand_hash(case.seed ^ ((j as u64) << 8) ^ 0xD33B) }
        })
        .collect();
    let mut node = ref_leaf(&leaf);
    for (j, sib) in sibs.iter().enumerate() {
        node = if (index >> j) & 1 == 0 { ref_pair(&node, sib) } else { ref_pair(sib, &node) };
    }
    let root = node;
    // the leaf is the last non-empty one iff every right-hand sibling is an empty subtree
    let is_last = (0..h).all(|j| (index >> j) & 1 == 1 || sibs[j] == empty_root(j));
    let supported = h <= MAX_MERKLE_TREE_HEIGHT;

    let mut m_leaf = leaf.clone();
    let mut m_index: u128 = index as u128;
    let mut m_proof = sibs.clone();
    let mut changed = false;
    for m in &d.muts {
        match m {
            DeepMut::Extend(k, f) => {
                for _ in 0..*k {
                    push_fill(&mut m_proof, f);
                }
                changed = true;
                out.label("deep-mut=extend");
            }
            DeepMut::Truncate(k) => {
                let l = m_proof.len().saturating_sub(*k as usize);
                changed |= l != m_proof.len();
                m_proof.truncate(l);
                out.label("deep-mut=truncate");
            }
            DeepMut::AliasUp(k) => {
                if h < 64 {
                    m_index += (*k as u128) << h;
                    changed = true;
                }
                out.label("deep-mut=alias-up");
            }
            DeepMut::FlipBit(b) => {
                if h > 0 {
                    m_index ^= 1u128 << (*b as usize % h);
                    changed = true;
                }
                out.label("deep-mut=flip-bit");
            }
            DeepMut::ElemRandom(p, s) => {
                if !m_proof.is_empty() {
                    let i = *p as usize % m_proof.len();
                    m_proof[i] = rand_hash(*s);
                    changed = true;
                }
                out.label("deep-mut=elem");
            }
            DeepMut::LeafOther(s) => {
                m_leaf = leaf_bytes(*s, 78);
                changed = true;
                out.label("deep-mut=leaf");
            }
        }
    }
    if m_index > usize::MAX as u128 {
        return out;
    }
    // several mutations may cancel out (extend then truncate): what counts is the offered tuple
    let changed = changed && (m_leaf != leaf || m_index != index as u128 || m_proof != sibs);
    let m_index = m_index as usize;
    out.nontrivial = changed || h >= 30;
    let (truth, truth_last) = if changed { (false, false) } else { (supported, supported && is_last) };
    let r = catch(|| (PlainMerkleTree::check_proof(&m_leaf, m_index, &root, &m_proof), PlainMerkleTree::check_proof_last(&m_leaf, m_index, &root, &m_proof)));
    match r {
        Err(p) => out.violate(format!("C15/deep/panic/{}/{}", panic_site(&p), panic_msg(&p)), format!("{d:?}: {p}")),
        Ok((a, b)) => {
            out.checks += 2;
            if a != truth {
                out.violate(
                    if a { "C15/check_proof/accepts/deep-altered" } else { "C15/check_proof/rejects-honest/deep" },
                    format!("virtual tree of height {h}, index {index}, last={is_last}, mutations {:?}: check_proof = {a}, expected {truth}", d.muts),
                );
            }
            if b != truth_last {
                out.violate(
                    if b { "C15/check_proof_last/accepts/deep-altered" } else { "C15/check_proof_last/rejects-honest/deep" },
                    format!("virtual tree of height {h}, index {index}, last={is_last}, mutations {:?}: check_proof_last = {b}, expected {truth_last}", d.muts),
                );
            }
        }
    }
    out
}

pub struct C15;

impl Property for C15 {
    type Case = Case;

    fn id(&self) -> &'static str {
        "C15"
    }
    fn cases(&self, tier: Tier) -> u32 {
        tier.pick(40_000, 2_000_000)
    }
    fn rule(&self) -> String {
        "cases: (a) a tree (plain / slice / double-Merkle typing) with 1..=1024 leaves or 2^p-1,2^p,2^p+1 for p<=12, \
         optional explicit empty leaves, one honest proof for a generated index, then 0..=3 mutations of \
         (leaf, claimed index, root, proof element, proof length, path of another leaf). Oracle: independent \
         reference tree over the padded leaf list decides the semantic truth of check_proof / check_proof_last; (b) in 12 % of the cases a \
         virtual tree of height 0..=40 (32, the supported maximum, emphasised) defined by a leaf, an index and a \
         sibling path (right-hand siblings canonical empty subtrees or not), with the honest tuple extended, \
         truncated, index-aliased by 2^height, bit-flipped or element/leaf-altered: honest tuples verify iff \
         height <= 32 (last-leaf variant iff additionally every right-hand sibling is empty), altered ones never. \
         Non-trivial: at least one mutation was applied (the tuple offered to the verifier differs from what the \
         tree produced or targets a different position); distinct = distinct case fingerprint."
            .into()
    }
    fn assumptions(&self) -> Vec<String> {
        vec![
            "SHA-256 collision resistance (a tuple that differs from the honest one is expected to be rejected)".into(),
            "leaf counts up to 4097; claimed indices over the whole usize range".into(),
        ]
    }
    fn strategy(&self, tier: Tier) -> BoxedStrategy<Case> {
        (
            prop_oneof![Just(TreeKind::Plain), Just(TreeKind::Slice), Just(TreeKind::Double)],
            n_strategy(tier),
            any::<u64>(),
            prop::collection::vec(any::<u16>(), 0..3),
            prop_oneof![3 => Just(0usize), 1 => 1usize..=3],
            any::<u16>(),
            prop::collection::vec(mutation_strategy(), 0..=3),
            prop::option::weighted(0.12, deep_strategy()),
        )
            .prop_map(|(kind, n, seed, empties, trailing_empty, index, muts, deep)| Case {
                kind,
                n,
                seed,
                empties,
                trailing_empty,
                index,
                muts,
                deep,
            })
            .boxed()
    }
    fn regressions(&self) -> Vec<Case> {
        vec![
            // index aliasing: 5 leaves, index 2 -> 2 + 8
            Case {
                kind: TreeKind::Plain,
                n: 5,
                seed: 1,
                empties: vec![],
                trailing_empty: 0,
                index: 0x6800,
                muts: vec![Mutation::Index(IndexMut::AliasUp(1))],
                deep: None,
            },
            Case {
                kind: TreeKind::Double,
                n: 5,
                seed: 2,
                empties: vec![],
                trailing_empty: 0,
                index: 0xffff,
                muts: vec![Mutation::Index(IndexMut::AliasUp(1))],
                deep: None,
            },
        ]
    }
    fn run(&self, case: &Case) -> Outcome {
        if let Some(d) = &case.deep {
            return run_deep(case, d);
        }
        match case.kind {
            TreeKind::Plain => run_typed::<Vec<u8>, Hash, Vec<Hash>>(case, |b| b.to_vec(), |d| Some(d.to_vec())),
            TreeKind::Slice => run_typed::<Vec<u8>, SliceRoot, SliceProof>(case, |b| b.to_vec(), |d| Some(d.to_vec())),
            TreeKind::Double => run_typed::<SliceRoot, DoubleMerkleRoot, DoubleMerkleProof>(
                case,
                // leaves of the double tree are slice roots (never empty)
                |b| SliceRoot::from(hash(b)),
                |d| {
                    let b: [u8; 32] = d.try_into().ok()?;
                    Some(SliceRoot::from(crate::fixtures::hash_from_bytes(b)))
                },
            ),
        }
    }
}

fn run_typed<L, R, P>(case: &Case, mk: impl Fn(&[u8]) -> L, from_data: impl Fn(&[u8]) -> Option<L>) -> Outcome
where
    L: MerkleLeaf,
    R: MerkleRoot,
    P: MerkleProof,
{
    let mut out = Outcome::default();
    let typed_bytes = case.kind != TreeKind::Double;

    // --- build leaves
    let mut raw: Vec<Vec<u8>> = (0..case.n).map(|i| leaf_bytes(case.seed, i)).collect();
    if typed_bytes {
        for e in &case.empties {
            let i = pick_idx(*e, raw.len());
            raw[i] = Vec::new();
        }
        for _ in 0..case.trailing_empty {
            raw.push(Vec::new());
        }
    }
    let leaves: Vec<L> = raw.iter().map(|b| mk(b)).collect();
    let leaf_data: Vec<Vec<u8>> = leaves.iter().map(|l| l.as_ref().to_vec()).collect();
    let n = leaves.len();
    let reft = RefTree::new(&leaf_data);
    let width = reft.width();
    out.label(format!("kind={:?}", case.kind));
    out.label(if n.is_power_of_two() { "n=pow2" } else { "n=non-pow2" });

    // --- SUT tree
    let tree = match catch(|| MerkleTree::<L, R, P>::new(leaves.iter())) {
        Ok(t) => t,
        Err(p) => {
            out.violate(format!("C15/new/panic/{}", panic_msg(&p)), p);
            return out;
        }
    };
    let root: R = tree.get_root();
    out.check(*root.as_hash() == reft.root(), "C15/root/differs-from-reference", || {
        format!("n={n}")
    });
    out.check(tree.height() == reft.height, "C15/height/differs-from-reference", || format!("n={n}"));

    // --- honest proof
    let i = pick_idx(case.index, n);
    let proof: P = match catch(|| tree.create_proof(i)) {
        Ok(p) => p,
        Err(p) => {
            out.violate(format!("C15/create_proof/panic/{}", panic_msg(&p)), p);
            return out;
        }
    };
    out.check(proof.as_ref() == reft.path(i).as_slice(), "C15/create_proof/differs-from-reference", || {
        format!("n={n} i={i}")
    });
    let ok = MerkleTree::<L, R, P>::check_proof(&leaves[i], i, &root, &proof);
    out.check(ok, "C15/check_proof/rejects-honest", || format!("n={n} i={i}"));
    let all_right_empty = |j: usize| (j + 1..width).all(|k| k >= n || leaf_data[k].is_empty());
    let ok_last = MerkleTree::<L, R, P>::check_proof_last(&leaves[i], i, &root, &proof);
    out.check(ok_last == all_right_empty(i), "C15/check_proof_last/honest-mismatch", || {
        format!("n={n} i={i} got={ok_last} expected={}", all_right_empty(i))
    });
    let derived: R = MerkleTree::<L, R, P>::derive_root(&leaves[i], i, &proof);
    out.check(derived.as_hash() == root.as_hash(), "C15/derive_root/honest-mismatch", || format!("n={n} i={i}"));

    if case.muts.is_empty() {
        return out;
    }

    // --- apply mutations to the tuple
    let mut m_leaf: Vec<u8> = leaf_data[i].clone();
    let mut m_index: usize = i;
    let mut m_root: Hash = root.as_hash().clone();
    let mut m_proof: Vec<Hash> = proof.as_ref().to_vec();
    for m in &case.muts {
        out.label(format!("mut={}", m.class()));
        match m {
            Mutation::Leaf(LeafMut::Other(s)) => m_leaf = mk(&leaf_bytes(*s, 77)).as_ref().to_vec(),
            Mutation::Leaf(LeafMut::Empty) => {
                if typed_bytes {
                    m_leaf = Vec::new()
                }
            }
            Mutation::Leaf(LeafMut::LeafAt(r)) => m_leaf = leaf_data[pick_idx(*r, n)].clone(),
            Mutation::Index(im) => {
                m_index = match im {
                    IndexMut::Plus1 => m_index.wrapping_add(1),
                    IndexMut::Minus1 => m_index.wrapping_sub(1),
                    IndexMut::AliasUp(k) => m_index.wrapping_add((*k as usize) * width),
                    IndexMut::FlipBit(h) => {
                        if reft.height == 0 {
                            m_index ^ 1
                        } else {
                            m_index ^ (1 << (*h as usize % reft.height))
                        }
                    }
                    IndexMut::Random20(r) => *r as usize,
                    IndexMut::MaxAdjacent(d) => usize::MAX - *d as usize,
                    IndexMut::HighBit(b) => m_index | (1usize << *b),
                    IndexMut::Set(r) => pick_idx(*r, width),
                }
            }
            Mutation::RootRandom(s) => m_root = rand_hash(*s),
            Mutation::RootInner(r) => {
                // some inner node / leaf hash of the tree instead of the root
                let lvl = pick_idx(*r, reft.levels.len());
                let pos = pick_idx(r.rotate_left(7), reft.levels[lvl].len());
                m_root = reft.levels[lvl][pos].clone();
            }
            Mutation::ElemRandom { pos, seed } => {
                if !m_proof.is_empty() {
                    let p = pick_idx(*pos, m_proof.len());
                    m_proof[p] = rand_hash(*seed);
                }
            }
            Mutation::ElemSwap { a, b } => {
                if !m_proof.is_empty() {
                    let a = pick_idx(*a, m_proof.len());
                    let b = pick_idx(*b, m_proof.len());
                    m_proof.swap(a, b);
                }
            }
            Mutation::ElemEmpty { pos } => {
                if !m_proof.is_empty() {
                    let p = pick_idx(*pos, m_proof.len());
                    m_proof[p] = empty_root(p);
                }
            }
            Mutation::Truncate(k) => {
                let l = m_proof.len().saturating_sub(*k as usize);
                m_proof.truncate(l);
            }
            Mutation::Extend(k, f) => {
                for _ in 0..*k {
                    push_fill(&mut m_proof, f);
                }
            }
            Mutation::SetLen(k, f) => {
                let k = *k as usize;
                m_proof.truncate(k);
                while m_proof.len() < k {
                    push_fill(&mut m_proof, f);
                }
            }
            Mutation::PathOf(r) => m_proof = reft.path(pick_idx(*r, width)),
        }
    }

    // --- semantic truth. The offered root may be the tree's root or (after a RootInner mutation)
    // the root of one of its subtrees, which is itself a perfectly good tree: the tuple must verify
    // iff, for a node at level |proof| whose hash is the offered root, the claimed index is inside
    // that subtree, the leaf is the padded leaf there and the proof is its path inside the subtree.
    let empty_leaf = ref_leaf(&[]);
    let mut truth = false;
    let mut truth_last = false;
    let h = m_proof.len();
    if h <= reft.height && (h >= 63 || m_index >> h == 0) {
        for (p, node) in reft.levels[h].iter().enumerate() {
            if *node != m_root {
                continue;
            }
            let g = (p << h) + m_index;
            if ref_leaf(&m_leaf) == reft.levels[0][g] && m_proof[..] == reft.path(g)[..h] {
                truth = true;
                if (g + 1..(p + 1) << h).all(|k| reft.levels[0][k] == empty_leaf) {
                    truth_last = true;
                }
            }
        }
    }
    out.nontrivial = true;
    out.label(if truth { "mutated=still-true" } else { "mutated=false" });

    // typed values for the SUT
    let Some(s_leaf) = from_data(&m_leaf) else {
        // leaf data not expressible in this tree's leaf type
        return out;
    };
    let s_root: R = R::from(m_root.clone());
    let s_proof: P = P::from(m_proof.clone());

    let describe = || {
        format!(
            "kind={:?} n={n} honest_index={i} claimed_index={m_index} proof_len={} height={} muts={:?}",
            case.kind,
            m_proof.len(),
            reft.height,
            case.muts
        )
    };
    let class = |accepted_false: bool| -> &'static str {
        if accepted_false {
            let bits = m_proof.len().min(63);
            if m_index >> bits != 0 { "index-beyond-width" } else { "other" }
        } else {
            "valid"
        }
    };
    match catch(|| MerkleTree::<L, R, P>::check_proof(&s_leaf, m_index, &s_root, &s_proof)) {
        Ok(got) => {
            out.checks += 1;
            if got && !truth {
                out.violate(format!("C15/check_proof/accepts/{}", class(true)), describe());
            } else if !got && truth {
                out.violate("C15/check_proof/rejects/valid", describe());
            }
        }
        Err(p) => out.violate(format!("C15/check_proof/panic/{}/{}", panic_site(&p), panic_msg(&p)), format!("{p}; {}", describe())),
    }
    match catch(|| MerkleTree::<L, R, P>::check_proof_last(&s_leaf, m_index, &s_root, &s_proof)) {
        Ok(got) => {
            out.checks += 1;
            if got && !truth_last {
                out.violate(format!("C15/check_proof_last/accepts/{}", class(true)), describe());
            } else if !got && truth_last {
                out.violate("C15/check_proof_last/rejects/valid", describe());
            }
        }
        Err(p) => out.violate(format!("C15/check_proof_last/panic/{}/{}", panic_site(&p), panic_msg(&p)), format!("{p}; {}", describe())),
    }
    // derive_root must never panic on any input (it is public and fed with network data)
    if let Err(p) = catch(|| MerkleTree::<L, R, P>::derive_root(&s_leaf, m_index, &s_proof)) {
        out.violate(format!("C15/derive_root/panic/{}/{}", panic_site(&p), panic_msg(&p)), format!("{p}; {}", describe()));
    }
    out
}

fn push_fill(p: &mut Vec<Hash>, f: &ProofFill) {
    let h = p.len();
    let e = match f {
        ProofFill::CanonicalEmpty => empty_root(h.min(40)),
        ProofFill::Random(s) => rand_hash(*s ^ h as u64),
        ProofFill::DupLast => p.last().cloned().unwrap_or_else(|| empty_root(0)),
    };
    p.push(e);
}
