//! C13 — blockstore rebuilds exactly the disseminated block, once, and flags bad ones.

use alpenglow::consensus::{AddShredError, Blockstore, BlockstoreEvent};
use alpenglow::crypto::merkle::DoubleMerkleTree;
use alpenglow::shredder::ValidatedShred;
use alpenglow::types::{Slice, SlicePayload, Slot};
use proptest::prelude::*;
use serde::{Deserialize, Serialize};

use crate::engine::{Outcome, Property, Tier, catch, is_known, panic_msg, panic_site, pick_idx};
use crate::fixtures::blocks::{BlockSpec, BuiltBlock, SliceSpec, Store, build_block, build_slice, tx_data};
use crate::fixtures::pool_driver::bid;
use crate::fixtures::shreds::{ShredParts, prng_bytes, shred_bytes, shred_index, slice_index};
use crate::fixtures::{block_on, keys};

#[derive(Clone, Debug, Serialize, Deserialize)]
pub enum Malform {
    /// a second version of slice i with another payload
    ConflictingPayload(u8),
    /// slice i additionally exists with the opposite last flag (same payload)
    ConflictingLastFlag(u8),
    /// a slice beyond the last one exists (non-last)
    SliceBeyondLast,
    /// slice i carries bytes that are not a transaction list
    UndecodableData(u8),
    /// slice i carries a well-formed transaction list that is followed by stray bytes (flavour 0),
    /// cut short by one byte (1), or announces one transaction more than it contains (2)
    AlmostDecodable { slice: u8, flavour: u8, extra: u8 },
    /// the first slice names no parent
    NoParent,
    /// two different later slices switch the parent
    ParentSwitchedTwice,
    /// a later slice "switches" to the parent the block already has
    ParentSwitchedToSame,
    /// the (first or switched) parent is in this or a later slot
    ParentNotEarlier { switched: bool, ahead: u8 },
}

#[derive(Clone, Debug, Serialize, Deserialize)]
pub struct Case {
    pub block: BlockSpec,
    pub malform: Option<Malform>,
    /// delivery: (slice raw, shred raw) pairs drawn with replacement first, then everything that
    /// is still missing in a seeded order (so each slice ends with >= 32, usually all, shreds)
    pub prefix: Vec<(u16, u8)>,
    pub order_seed: u64,
    /// how many shreds per slice are withheld (0..=32)
    pub withhold: u8,
    /// deliver through the node's validation path (cached commitment) and garble the signature
    /// bytes of these deliveries (index into the delivery list)
    pub garble_sig: Vec<u16>,
    pub via_validation: bool,
    /// deliver the shreds of the conflicting / extra slice only after everything else
    pub bad_last: bool,
}

pub struct C13;

fn block_strategy() -> impl Strategy<Value = BlockSpec> {
    let slice = (prop::collection::vec(prop_oneof![0u16..40, 0u16..512], 0..6), Just(None)).prop_map(|(txs, switch_parent)| SliceSpec { txs, switch_parent });
    (
        4u64..40,
        0u8..4,
        prop_oneof![3 => 1usize..=4, 1 => 5usize..=8, 1 => 20usize..=40],
        any::<u64>(),
        prop::collection::vec(slice, 40),
        // handover: the new parent lies 1..=3 slots before the first one, or (back = 3 -> "same")
        // is another block of the very same slot (a second block of an equivocating earlier leader)
        prop::option::weighted(0.3, (any::<u16>(), 0u64..4)),
    )
        .prop_map(|(slot, leader, k, seed, mut slices, handover)| {
            slices.truncate(k);
            let parent = (slot - 1 - (seed % 3).min(slot - 1), 50 + seed % 5);
            if let Some((at, back)) = handover
                && k >= 2
            {
                let i = 1 + pick_idx(at, k - 1);
                let ps = if back == 3 { parent.0 } else { parent.0.saturating_sub(1 + back).max(0) };
                if (ps, 60) != parent {
                    slices[i].switch_parent = Some((ps, 60 + back));
                }
            }
            BlockSpec { slot, leader, parent, slices, seed }
        })
}

impl Property for C13 {
    type Case = Case;
    fn id(&self) -> &'static str {
        "C13"
    }
    fn cases(&self, tier: Tier) -> u32 {
        tier.pick(3_000, 100_000)
    }
    fn rule(&self) -> String {
        "cases: blocks of 1..=8 (sometimes 20..=40) slices with empty to full transaction lists, optional optimistic-handover \
         parent switch, signed by one of four leaders; delivery = generated prefix with duplicates followed by the remaining \
         shreds in a seeded order with 0..=32 shreds per slice withheld, either as validated shreds or through the node's \
         validation path with the store's cached commitment (optionally with garbled signature bytes); malformed variants a \
         Byzantine leader can sign (conflicting payload / last flag, slice beyond the last, undecodable data, no parent, parent \
         switched twice / to itself, parent not in an earlier slot) with the bad slice placed anywhere. Oracle: correct leader \
         => exactly one FirstShred, one Block, one Ok(Some(info)); info = recomputed double-Merkle root, effective parent; \
         afterwards get_block / all shreds / slice roots / proofs / disseminated hash agree and every served shred validates from \
         scratch; leader fast path stores the same; malformed => InvalidBlock exactly once, no Block after it, none at all for \
         intrinsically malformed content. Non-trivial: >= 2 slices interleaved or a malformed slice that is not delivered first."
            .into()
    }
    fn assumptions(&self) -> Vec<String> {
        vec!["the store is fed the way consensus.rs feeds it (validated shreds; cached commitment looked up per shred)".into()]
    }
    fn strategy(&self, _tier: Tier) -> BoxedStrategy<Case> {
        let malform = prop_oneof![
            2 => any::<u8>().prop_map(Malform::ConflictingPayload),
            2 => any::<u8>().prop_map(Malform::ConflictingLastFlag),
            2 => Just(Malform::SliceBeyondLast),
            2 => any::<u8>().prop_map(Malform::UndecodableData),
            2 => (any::<u8>(), 0u8..3, 1u8..=9).prop_map(|(slice, flavour, extra)| Malform::AlmostDecodable { slice, flavour, extra }),
            1 => Just(Malform::NoParent),
            1 => Just(Malform::ParentSwitchedTwice),
            1 => Just(Malform::ParentSwitchedToSame),
            2 => (any::<bool>(), 0u8..3).prop_map(|(switched, ahead)| Malform::ParentNotEarlier { switched, ahead }),
        ];
        (
            block_strategy(),
            prop::option::weighted(0.45, malform),
            prop::collection::vec((any::<u16>(), 0u8..64), 0..40),
            any::<u64>(),
            prop_oneof![3 => Just(0u8), 2 => 1u8..=32, 1 => Just(32u8)],
            prop::collection::vec(any::<u16>(), 0..3),
            prop::bool::weighted(0.3),
            prop::bool::weighted(0.4),
        )
            .prop_map(|(block, malform, prefix, order_seed, withhold, garble_sig, via_validation, bad_last)| Case { block, malform, prefix, order_seed, withhold, garble_sig, via_validation, bad_last })
            .boxed()
    }
    fn regressions(&self) -> Vec<Case> {
        let two = |malform| Case {
            block: BlockSpec { slot: 9, leader: 1, parent: (8, 50), slices: vec![SliceSpec { txs: vec![10], switch_parent: None }, SliceSpec { txs: vec![20], switch_parent: None }], seed: 4 },
            malform,
            prefix: vec![],
            order_seed: 1,
            withhold: 0,
            garble_sig: vec![],
            via_validation: false,
            bad_last: false,
        };
        vec![two(Some(Malform::SliceBeyondLast)), two(Some(Malform::ParentNotEarlier { switched: false, ahead: 1 })), two(None)]
    }
    fn run(&self, case: &Case) -> Outcome {
        let mut out = Outcome::default();
        let r = catch(|| run(case, &mut out));
        if let Err(p) = r {
            out.violate(format!("C13/panic/{}/{}", panic_site(&p), panic_msg(&p)), p);
        }
        out
    }
}

/// Extra (Byzantine-signed) slices to deliver in addition to / instead of the block's own.
struct Plan {
    /// all slices whose shreds are delivered: (slice value, shreds, is_bad)
    slices: Vec<(Slice, Vec<ValidatedShred>, bool)>,
    /// content is malformed in itself (no Block may ever be announced)
    intrinsic: bool,
    /// the misbehaviour is only revealed once this many shreds of the bad slice are in (1 or 32)
    malformed: bool,
}

fn plan(case: &Case, built: &BuiltBlock) -> Plan {
    let leader = case.block.leader as usize;
    let mut slices: Vec<(Slice, Vec<ValidatedShred>, bool)> = built.slices.iter().map(|s| (s.slice.clone(), s.shreds.clone(), false)).collect();
    let k = slices.len();
    let mut intrinsic = false;
    let Some(m) = &case.malform else { return Plan { slices, intrinsic, malformed: false } };
    let mut reshred = |slice: Slice| -> (Slice, Vec<ValidatedShred>, bool) {
        let b = build_slice(slice, leader, vec![]);
        (b.slice, b.shreds, true)
    };
    match m {
        Malform::ConflictingPayload(i) => {
            let i = *i as usize % k;
            let mut s = slices[i].0.clone();
            s.data = tx_data(&[alpenglow::Transaction(prng_bytes(case.order_seed, 33))]);
            slices.push(reshred(s));
        }
        Malform::ConflictingLastFlag(i) => {
            let i = *i as usize % k;
            let mut s = slices[i].0.clone();
            s.is_last = !s.is_last;
            slices.push(reshred(s));
        }
        Malform::SliceBeyondLast => {
            let mut s = slices[k - 1].0.clone();
            s.slice_index = slice_index(k);
            s.is_last = false;
            s.parent = None;
            slices.push(reshred(s));
        }
        Malform::UndecodableData(i) => {
            let i = *i as usize % k;
            let mut s = slices[i].0.clone();
            s.data = vec![0xff; 9];
            slices[i] = reshred(s);
            intrinsic = true;
        }
        Malform::AlmostDecodable { slice, flavour, extra } => {
            let i = *slice as usize % k;
            let mut s = slices[i].0.clone();
            let mut d = tx_data(&[alpenglow::Transaction(prng_bytes(case.order_seed, 21)), alpenglow::Transaction(vec![])]);
            match flavour % 3 {
                0 => d.extend(std::iter::repeat_n(0u8, *extra as usize)),
                1 => {
                    d.pop();
                }
                _ => d[0] += 1,
            }
            s.data = d;
            slices[i] = reshred(s);
            intrinsic = true;
        }
        Malform::NoParent => {
            let mut s = slices[0].0.clone();
            s.parent = None;
            slices[0] = reshred(s);
            intrinsic = true;
        }
        Malform::ParentSwitchedTwice => {
            if k < 3 {
                return Plan { slices, intrinsic, malformed: false };
            }
            for (j, i) in [1usize, k - 1].into_iter().enumerate() {
                let mut s = slices[i].0.clone();
                s.parent = Some(bid(1 + j as u64, 70 + j as u64));
                slices[i] = reshred(s);
            }
            intrinsic = true;
        }
        Malform::ParentSwitchedToSame => {
            if k < 2 {
                return Plan { slices, intrinsic, malformed: false };
            }
            // only meaningful when no earlier switch happened
            for s in slices.iter_mut().skip(1) {
                if s.0.parent.is_some() {
                    let mut v = s.0.clone();
                    v.parent = None;
                    *s = reshred(v);
                    s.2 = false;
                }
            }
            let mut s = slices[k - 1].0.clone();
            s.parent = slices[0].0.parent.clone();
            slices[k - 1] = reshred(s);
            intrinsic = true;
        }
        Malform::ParentNotEarlier { switched, ahead } => {
            let bad = bid(case.block.slot + *ahead as u64, 80);
            if *switched {
                if k < 2 {
                    return Plan { slices, intrinsic, malformed: false };
                }
                for s in slices.iter_mut().skip(1) {
                    if s.0.parent.is_some() {
                        let mut v = s.0.clone();
                        v.parent = None;
                        *s = reshred(v);
                        s.2 = false;
                    }
                }
                let mut s = slices[k - 1].0.clone();
                s.parent = Some(bad);
                slices[k - 1] = reshred(s);
            } else {
                let mut s = slices[0].0.clone();
                s.parent = Some(bad);
                slices[0] = reshred(s);
            }
            intrinsic = true;
        }
    }
    Plan { slices, intrinsic, malformed: true }
}

fn run(case: &Case, out: &mut Outcome) {
    let built = build_block(&case.block);
    let k = built.slices.len();
    let slot = case.block.slot;
    let leader_pk = keys().sig[case.block.leader as usize % 64].to_pk();
    let plan = plan(case, &built);
    if let Some(np) = case.block.slices.iter().skip(1).find_map(|s| s.switch_parent) {
        out.label(if np.0 == case.block.parent.0 { "handover=same-slot-other-block" } else { "handover=earlier-slot" });
    }
    out.label(match &case.malform {
        None => "well-formed".to_string(),
        Some(m) if plan.malformed => format!("malformed:{}", format!("{m:?}").split(['(', ' ', '{']).next().unwrap_or("")),
        Some(_) => "well-formed".to_string(),
    });

    // --- delivery list
    let ns = plan.slices.len();
    let mut deliveries: Vec<(usize, usize)> = case.prefix.iter().map(|(s, i)| (pick_idx(*s, ns), *i as usize)).collect();
    let mut rest: Vec<(usize, usize)> = Vec::new();
    let withhold = if plan.malformed { 0 } else { (case.withhold as usize).min(32) };
    for s in 0..ns {
        let r = prng_bytes(case.order_seed ^ (s as u64 * 7919), 64);
        let mut idx: Vec<usize> = (0..64).collect();
        for i in (1..64).rev() {
            idx.swap(i, r[i] as usize % (i + 1));
        }
        for i in idx.into_iter().skip(withhold) {
            rest.push((s, i));
        }
    }
    let r = prng_bytes(case.order_seed, rest.len().max(1) * 2);
    for i in (1..rest.len()).rev() {
        let j = (u16::from_le_bytes([r[2 * i], r[2 * i + 1]]) as usize) % (i + 1);
        rest.swap(i, j);
    }
    deliveries.extend(rest);
    if case.bad_last && plan.malformed && plan.slices.len() > k {
        // the added (conflicting / beyond-last) slice arrives after the rest, e.g. after the
        // block was already reconstructed
        let (good, bad): (Vec<_>, Vec<_>) = deliveries.into_iter().partition(|(s, _)| *s < k);
        deliveries = good;
        deliveries.extend(bad);
        out.label("bad-slice-delivered-last");
    }

    let mut st = Store::new();
    let mut first_shred = 0;
    let mut blocks: Vec<alpenglow::consensus::BlockInfo> = Vec::new();
    let mut invalid = 0;
    let mut ok_some = 0;
    let mut block_after_invalid = false;
    let mut bad_seen_at: Option<usize> = None;
    let mut interleaved = false;
    let mut last_slice_delivered: Option<usize> = None;
    let mut slices_touched = std::collections::BTreeSet::new();
    let mut garbled_stored = false;
    let garble: std::collections::BTreeSet<usize> = case.garble_sig.iter().map(|g| pick_idx(*g, deliveries.len().max(1))).collect();
    for (d, (s, i)) in deliveries.iter().enumerate() {
        let (_, shreds, is_bad) = &plan.slices[*s];
        if *is_bad && bad_seen_at.is_none() {
            bad_seen_at = Some(d);
        }
        if last_slice_delivered.is_some_and(|l| l != *s) && slices_touched.contains(s) {
            interleaved = true;
        }
        last_slice_delivered = Some(*s);
        slices_touched.insert(*s);
        let shred = if case.via_validation && !plan.malformed {
            // the node's path: look up the cached commitment, validate, then store
            let mut parts = ShredParts::of(shreds[*i].as_shred());
            let garbled = garble.contains(&d) && !plan.malformed;
            if garbled {
                parts.sig[5] ^= 0x40;
            }
            let Ok(raw) = parts.to_shred() else { continue };
            let cached = st.store.cached_commitment(Slot::new(slot), plan.slices[*s].0.slice_index);
            match ValidatedShred::try_new(raw, cached.as_ref(), &leader_pk) {
                Ok(v) => {
                    if garbled {
                        garbled_stored = true;
                    }
                    v
                }
                // a garbled copy was refused: the genuine shred still arrives
                Err(_) if garbled => shreds[*i].clone(),
                Err(_) => continue,
            }
        } else {
            shreds[*i].clone()
        };
        let res = block_on(st.store.add_shred_from_dissemination(shred));
        let events = st.drain();
        for e in &events {
            match e {
                BlockstoreEvent::FirstShred(s) => {
                    first_shred += 1;
                    out.check(s.inner() == slot, "C13/event-for-wrong-slot", || format!("{e:?}"));
                }
                BlockstoreEvent::Block { block_info, .. } => {
                    if invalid > 0 {
                        block_after_invalid = true;
                    }
                    blocks.push(block_info.clone());
                }
                BlockstoreEvent::InvalidBlock(_) => invalid += 1,
            }
        }
        match &res {
            Ok(Some(_)) => ok_some += 1,
            Ok(None) | Err(AddShredError::Duplicate) => {}
            Err(e) => {
                if !plan.malformed {
                    out.violate(format!("C13/correct-leader-shred-refused/{e:?}"), format!("delivery {d}: slice {s} shred {i}: {e:?}"));
                    return;
                }
            }
        }
    }

    // --- judge
    out.checks += 4;
    if !plan.malformed {
        out.nontrivial = k >= 2 && interleaved;
        if first_shred != 1 {
            out.violate(if first_shred > 1 { "C13/first-shred-announced-twice" } else { "C13/first-shred-not-announced" }, format!("{first_shred} FirstShred events"));
        }
        if invalid != 0 {
            out.violate("C13/correct-leader-flagged", format!("{invalid} InvalidBlock events for a well-formed block"));
        }
        if blocks.len() != 1 || ok_some != 1 {
            out.violate(
                if blocks.is_empty() { "C13/block-not-reconstructed" } else { "C13/block-announced-more-than-once" },
                format!("{} Block events, {ok_some} calls returned Some; {k} slices, {withhold} shreds withheld per slice", blocks.len()),
            );
            return;
        }
        let info = &blocks[0];
        out.check(info.verif_hash() == &built.hash, "C13/hash-differs-from-double-merkle-root", || format!("{k} slices"));
        out.check(info.verif_parent() == &bid(built.parent.0, built.parent.1), "C13/parent-differs", || format!("announced {:?}, leader used {:?}", info.verif_parent(), built.parent));
        let id = (Slot::new(slot), built.hash.clone());
        out.check(st.store.disseminated_block_hash(Slot::new(slot)) == Some(&built.hash), "C13/disseminated-hash-differs", String::new);
        match st.store.get_block(&id) {
            None => out.violate("C13/get_block-missing", String::new()),
            Some(b) => {
                let (h, ps, ph, txs) = b.verif_parts();
                let want: Vec<&alpenglow::Transaction> = built.slices.iter().flat_map(|s| s.txs.iter()).collect();
                out.check(h == &built.hash && (ps, ph.clone()) == bid(built.parent.0, built.parent.1), "C13/stored-block-header-differs", String::new);
                out.check(txs.len() == want.len() && txs.iter().zip(&want).all(|(a, b)| a.0 == b.0), "C13/transactions-differ", || format!("{} vs {}", txs.len(), want.len()));
            }
        }
        out.check(st.store.get_last_slice_index(&id) == Some(slice_index(k - 1)), "C13/last-slice-index-differs", String::new);
        for (si, bs) in built.slices.iter().enumerate() {
            let sidx = slice_index(si);
            out.check(st.store.get_slice_root(&id, sidx).as_ref() == Some(&bs.root), "C13/slice-root-differs", || format!("slice {si}"));
            match st.store.create_double_merkle_proof(&id, sidx) {
                None => out.violate("C13/proof-missing", format!("slice {si}")),
                Some(p) => {
                    out.check(DoubleMerkleTree::check_proof(&bs.root, si, &built.hash, &p), "C13/slice-proof-invalid", || format!("slice {si}"));
                    let last_ok = DoubleMerkleTree::check_proof_last(&bs.root, si, &built.hash, &p);
                    out.check(last_ok == (si == k - 1), "C13/last-slice-proof-wrong", || format!("slice {si} of {k}: {last_ok}"));
                }
            }
            for i in 0..64 {
                match st.store.get_shred(&id, sidx, shred_index(i)) {
                    None => {
                        out.violate("C13/shred-not-served", format!("slice {si} shred {i}"));
                        return;
                    }
                    Some(s) => {
                        out.checks += 1;
                        let valid = ValidatedShred::try_new(s.as_shred().clone(), None, &leader_pk).is_ok();
                        if !valid {
                            let sig = if garbled_stored { "C13/served-shred-invalid/garbled-signature-under-cached-commitment" } else { "C13/served-shred-invalid" };
                            if is_known("C13", sig) {
                                out.excluded_known += 1;
                            }
                            out.violate(sig, format!("slice {si} shred {i} served by the store does not validate from scratch"));
                            return;
                        }
                        if !garbled_stored && shred_bytes(s.as_shred()) != shred_bytes(bs.shreds[i].as_shred()) {
                            out.violate("C13/served-shred-differs", format!("slice {si} shred {i}"));
                            return;
                        }
                    }
                }
            }
        }
        // leader fast path stores the same block
        let mut own = Store::new();
        let mut own_info = None;
        for bs in &built.slices {
            let payload = SlicePayload::try_from(payload_bytes(&bs.slice).as_slice()).expect("payload");
            let arr: [ValidatedShred; 64] = bs.shreds.clone().try_into().map_err(|_| ()).expect("64 shreds");
            if let Some(i) = block_on(own.store.add_own_slice(payload, Box::new(arr))) {
                own_info = Some(i);
            }
        }
        let ev = own.drain();
        out.check(own_info.as_ref() == Some(info), "C13/fast-path-block-differs", || format!("{own_info:?} vs {info:?}"));
        out.check(
            ev.iter().filter(|e| matches!(e, BlockstoreEvent::FirstShred(_))).count() == 1 && ev.iter().filter(|e| matches!(e, BlockstoreEvent::Block { .. })).count() == 1,
            "C13/fast-path-events",
            || format!("{ev:?}"),
        );
        for (si, bs) in built.slices.iter().enumerate() {
            for i in [0usize, 31, 32, 63] {
                let a = own.store.get_shred(&id, slice_index(si), shred_index(i)).map(|s| shred_bytes(s.as_shred()));
                out.check(a == Some(shred_bytes(bs.shreds[i].as_shred())), "C13/fast-path-shred-differs", || format!("slice {si} shred {i}"));
            }
        }
    } else {
        out.nontrivial = bad_seen_at.is_some_and(|d| d > 0);
        if invalid != 1 {
            out.violate(
                if invalid == 0 { "C13/malformed-block-not-flagged" } else { "C13/invalid-block-announced-more-than-once" },
                format!("{:?}: {invalid} InvalidBlock events after everything was delivered; {} Block events", case.malform, blocks.len()),
            );
        }
        if block_after_invalid {
            out.violate("C13/block-announced-after-invalid", format!("{:?}", case.malform));
        }
        if plan.intrinsic && !blocks.is_empty() {
            let class = match &case.malform {
                Some(Malform::ParentNotEarlier { .. }) => "C13/block-with-parent-not-earlier",
                _ => "C13/malformed-content-announced-as-block",
            };
            out.violate(class, format!("{:?}: a Block was announced", case.malform));
        }
        if first_shred != 1 {
            out.violate(if first_shred > 1 { "C13/first-shred-announced-twice" } else { "C13/first-shred-not-announced" }, format!("{first_shred} FirstShred events ({:?})", case.malform));
        }
    }
}

fn payload_bytes(s: &Slice) -> Vec<u8> {
    let mut b = wincode::serialize(&s.parent).expect("encode parent");
    b.extend(wincode::serialize(&s.data).expect("encode data"));
    b
}
