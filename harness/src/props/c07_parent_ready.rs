//! C07 — parent-ready is announced exactly for certified, skip-connected parents.

use proptest::prelude::*;

use super::world_run::{Focus, Runner};
use crate::engine::{Outcome, Property, Tier};
use crate::fixtures::world::{ExtraSpec, Fin, WOp, WorldCase, world_strategy};

pub struct C07;

impl Property for C07 {
    type Case = WorldCase;
    fn id(&self) -> &'static str {
        "C07"
    }
    fn cases(&self, tier: Tier) -> u32 {
        tier.pick(6_000, 200_000)
    }
    fn rule(&self) -> String {
        "cases: a consistent world over 2..=6 leader windows (per window 0..4 chain blocks from the window's first slot, \
         remaining slots skipped; a generated subset of chain blocks finalised fast / slow / both; up to 3 off-chain blocks \
         with notar-fallback or (<80 %) notar certificates in skipped slots), 4..=7 validators; a generated sub-multiset of \
         the world's certificates delivered as certificates or as their individual votes, block links and one waiter per \
         window, in an order between in-order and fully random (spread parameter), with duplicates. Oracle: reachability \
         model (certified blocks + skip-connectivity incl. slots skipped through finalisation) recomputed from the set of \
         certificates the pool reported and the links registered; after every call parents_ready(s) must equal it for \
         every live window, announcements must be sound, unique and complete, waiters must be woken. Non-trivial: at \
         least one (window, parent) pair arose; classes record pairs arising through a late skip and after pruning."
            .into()
    }
    fn assumptions(&self) -> Vec<String> {
        vec![
            "in a call that performs a finalisation only the highest window that gained a parent must be announced (documented behaviour of the code; lower windows are already skip-certified or decided)".into(),
            "one waiter per window (the block producer registers once; a second waiter is an asserted precondition)".into(),
            "worlds are histories < 20 % Byzantine stake can produce: no unsafe certificate combination is ever generated".into(),
        ]
    }
    fn strategy(&self, _tier: Tier) -> BoxedStrategy<WorldCase> {
        world_strategy(6, false)
    }
    fn max_shrink_iters(&self) -> u32 {
        500
    }
    fn regressions(&self) -> Vec<WorldCase> {
        vec![
            // block in slot 3, then skip certificates for 5,6,7,4 (window head last)
            WorldCase {
                stakes: vec![1; 5],
                own: 0,
                chain_len: vec![3, 0, 1],
                fin: vec![Fin::No],
                extras: vec![], ghosts: vec![],
                seed: 1,
                spread: 1000,
                ops: vec![WOp::Cert(0), WOp::Cert(10000), WOp::Cert(20000), WOp::Cert(60000), WOp::Cert(50000), WOp::Cert(40000), WOp::Cert(30000), WOp::Cert(45000), WOp::Cert(35000)],
            },
            WorldCase {
                stakes: vec![2, 1, 1, 1, 1],
                own: 1,
                chain_len: vec![2, 0, 0, 2],
                fin: vec![Fin::Fast, Fin::No, Fin::Slow],
                extras: vec![ExtraSpec { slot: 30000, parent: 0, notar: true }], ghosts: vec![],
                seed: 7,
                spread: 1000,
                ops: (0..40u32).map(|k| if k % 3 == 0 { WOp::Link((k * 1500) as u16) } else { WOp::Cert((k * 1600 + 123) as u16) }).collect(),
            },
        ]
    }
    fn run(&self, case: &WorldCase) -> Outcome {
        let mut r = Runner::new(case);
        for i in 0..case.ops.len() {
            if !r.step(i, "C07", Focus::Parents) {
                break;
            }
        }
        let mut out = r.out;
        out.nontrivial = out.labels.iter().any(|l| l == "new-ready-pairs");
        out
    }
}
