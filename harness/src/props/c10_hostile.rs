//! C10 — no network input or Byzantine-signed content can crash or wedge a node.
//!
//! Full nodes (N-sim) with one Byzantine validator whose keys the harness holds. Normal traffic
//! runs for a few windows while hostile messages are injected on all five interfaces; then the
//! injection stops and the nodes must keep finalising and answering.

use alpenglow::consensus::ConsensusMessage;
use alpenglow::crypto::merkle::SliceMerkleTree;
use alpenglow::repair::RepairRequestType;
use alpenglow::shredder::{RegularShredder, Shredder};
use alpenglow::Transaction;
use proptest::prelude::*;
use serde::{Deserialize, Serialize};

use crate::engine::{Outcome, Property, Tier, catch, panic_msg, panic_site, take_panics};
use crate::fixtures::blocks::tx_data;
use crate::fixtures::keys;
use crate::fixtures::net::with_runtime;
use crate::fixtures::nsim::{Diss, Iface, SimNode, Switch, addr, advance, start_node};
use crate::fixtures::pool_driver::bid;
use crate::fixtures::shreds::{ShredParts, make_slice, prng_bytes, shred_index, slice_index};
use crate::fixtures::votes::{CKind, CertSpec, VKind, VoteSpec, make_cert, make_vote};

#[derive(Clone, Debug, Serialize, Deserialize)]
pub enum Hostile {
    /// raw bytes on an interface
    Junk { iface: u8, seed: u64, len: u16 },
    /// a validly signed vote with hostile fields
    Vote { kind: VKind, slot: SlotPick, block: u8 },
    /// a vote whose signer index is out of range (wire level)
    VoteBadSigner { signer: u64 },
    /// a certificate with a bit mask of the wrong length / a far-future slot
    Cert { kind: CKind, slot: SlotPick, mask_extra: i8 },
    /// a block the Byzantine leader signs for one of its own slots
    Block { slot: SlotPick, malform: BlockMalform, slices: u8 },
    /// a crafted, validly signed shred with an odd / empty / oversized payload
    /// (`first`: index of the first of the 40 shreds sent, so that reconstruction needs coding shreds; `mixed`: one of
    /// them, counted from `first`, carries a payload of another even length under the same signed tree)
    OddShred {
        slot: SlotPick,
        data_len: u16,
        #[serde(default)]
        first: u8,
        #[serde(default)]
        mixed: Option<(u8, u16)>,
    },
    /// a genuine shred of the Byzantine leader with a mutated header / tag / proof
    MutatedShred { slot: SlotPick, which: u8, field: u8 },
    RepairRequest { sender: u64, kind: u8, slot: SlotPick, slice: u64, shred: u64 },
    RepairResponse { kind: u8, slot: SlotPick },
    Transactions { count: u8, len: u16 },
}

#[derive(Clone, Copy, Debug, Serialize, Deserialize)]
pub enum SlotPick {
    /// a slot of the Byzantine validator's next leader window (offset in the window)
    OwnWindow(u8),
    /// the window after `k` full rotations
    FarWindow(u8, u8),
    /// the last window before u64::MAX that the Byzantine validator leads
    LastWindow(u8),
    Current,
    Max,
}

#[derive(Clone, Copy, Debug, Serialize, Deserialize)]
pub enum BlockMalform {
    None,
    ParentSameSlot,
    ParentLater,
    ParentSwitchedTwice,
    ParentSwitchedToSelfSlot,
    UndecodableData,
    NoParent,
    TwoLastSlices,
    SliceBeyondLast,
    ConflictingVersions,
}

#[derive(Clone, Debug, Serialize, Deserialize)]
pub struct Case {
    pub n: u8,
    pub byz: u8,
    pub seed: u64,
    /// (time offset in units of 100 ms within the hostile phase, target mask, message)
    pub hostile: Vec<(u8, u8, Hostile)>,
    pub hostile_phase_s: u8,
    /// `true`: all validators (the Byzantine one included) have equal stake, which for n <= 5 puts
    /// the Byzantine stake at >= 20 % - outside the fault model, so only the no-panic / still-serving
    /// clauses are judged. `false` (all generated cases): the Byzantine validator holds n-2 stake
    /// units against 4 per correct validator (14..17 %).
    #[serde(default)]
    pub equal_stakes: bool,
    /// Delay (ms) of shred traffic between correct nodes during the hostile phase (0 = the default
    /// 20 ms); the recovery phase always runs on the timely 20 ms network.
    #[serde(default)]
    pub shred_delay_ms: u16,
    /// `Some`: instead of the hostile catalogue, a client floods one validator's transaction
    /// interface (see `run_client`)
    #[serde(default)]
    pub client: Option<ClientSpec>,
}

/// Client traffic towards one validator: groups of (count, payload length) transactions, sent in
/// order at one instant. Payload lengths above `MAX_TRANSACTION_SIZE` are legal datagrams that the
/// node has to drop.
#[derive(Clone, Debug, Serialize, Deserialize)]
pub struct ClientSpec {
    pub target: u8,
    pub at_ms: u16,
    pub groups: Vec<(u8, u16)>,
    /// after the flood, one transaction of the given (oversized) length every `period` ms until
    /// the end of the run
    #[serde(default)]
    pub drip: Option<(u16, u16)>,
}

pub struct C10;

impl Property for C10 {
    type Case = Case;
    fn id(&self) -> &'static str {
        "C10"
    }
    fn cases(&self, tier: Tier) -> u32 {
        tier.pick(96, 3_000)
    }
    fn rule(&self) -> String {
        "cases: 4..=6 validators, one Byzantine validator played by the harness holding n-2 stake units against 4 per \
         correct validator (14..17 %), full nodes for the others over Rotor with 20 ms hops (in a quarter of the cases \
         shreds between correct nodes take 21..400 ms during the hostile phase); for 4..10 virtual seconds up to 40 hostile messages are injected at generated times to \
         generated subsets: junk bytes on all five interfaces; validly signed votes for extreme / far-future slots; votes \
         with out-of-range signer; certificates with wrong mask length or extreme slots; blocks signed by the Byzantine \
         leader for its own (next, far-future or u64::MAX-adjacent) window that are well-formed or malformed (parent in the \
         same / a later slot, parent switched twice, undecodable data, no parent, contradictory last flags, conflicting \
         versions); crafted validly signed shreds with odd / empty / huge payloads; genuine shreds with mutated header, \
         tag or proof; repair requests with unknown sender and out-of-range indices; unsolicited repair responses; bursts \
         of transactions of every size up to the MTU. A quarter of the cases are client floods instead: four correct validators, one receives up to ~1500 \
         transactions at one instant (runs of maximum-size ones separated by single transactions that move the slice's \
         free space across every residue, plus oversized ones); an observer blockstore fed with the shreds that \
         validator disseminated as leader must reconstruct every block (never an invalid one) and the blocks must \
         carry, in order, exactly the admissible transactions sent, all of them within the following 8.5 s. \
         Oracle (hostile cases): the process-wide panic hook records nothing; after the \
         injection stops every correct node's finalized_slot() increases by at least two windows within 12 virtual \
         seconds and a probe repair request to every node is answered. Non-trivial: at least one hostile message that \
         passes the first validation layer (validly signed or decodable) was injected."
            .into()
    }
    fn assumptions(&self) -> Vec<String> {
        vec!["the keeps-finalising clause is judged only when the Byzantine stake is below 20 % (all generated cases); the regression case with a 20 % Byzantine validator is judged on the no-panic / no-storm / still-answering clauses only".into()]
    }
    fn strategy(&self, _tier: Tier) -> BoxedStrategy<Case> {
        let vk = prop_oneof![Just(VKind::Notar), Just(VKind::NotarFallback), Just(VKind::Skip), Just(VKind::SkipFallback), Just(VKind::Final)];
        let ck = prop_oneof![Just(CKind::Notar), Just(CKind::NotarFallback), Just(CKind::Skip), Just(CKind::FastFinal), Just(CKind::Final)];
        let slot = prop_oneof![
            4 => (0u8..4).prop_map(SlotPick::OwnWindow),
            2 => (1u8..4, 0u8..4).prop_map(|(k, o)| SlotPick::FarWindow(k, o)),
            2 => (0u8..4).prop_map(SlotPick::LastWindow),
            1 => Just(SlotPick::Current),
            1 => Just(SlotPick::Max),
        ];
        let malform = prop_oneof![
            Just(BlockMalform::None),
            Just(BlockMalform::ParentSameSlot),
            Just(BlockMalform::ParentLater),
            Just(BlockMalform::ParentSwitchedTwice),
            Just(BlockMalform::ParentSwitchedToSelfSlot),
            Just(BlockMalform::UndecodableData),
            Just(BlockMalform::NoParent),
            Just(BlockMalform::TwoLastSlices),
            Just(BlockMalform::SliceBeyondLast),
            Just(BlockMalform::ConflictingVersions),
        ];
        let hostile = prop_oneof![
            2 => (0u8..5, any::<u64>(), 0u16..1500).prop_map(|(iface, seed, len)| Hostile::Junk { iface, seed, len }),
            3 => (vk, slot.clone(), 0u8..3).prop_map(|(kind, slot, block)| Hostile::Vote { kind, slot, block }),
            1 => prop_oneof![Just(6u64), Just(u64::MAX), 6u64..3000].prop_map(|signer| Hostile::VoteBadSigner { signer }),
            2 => (ck, slot.clone(), -3i8..70).prop_map(|(kind, slot, mask_extra)| Hostile::Cert { kind, slot, mask_extra }),
            6 => (slot.clone(), malform, 1u8..4).prop_map(|(slot, malform, slices)| Hostile::Block { slot, malform, slices }),
            2 => (slot.clone(), prop_oneof![Just(0u16), Just(1), Just(3), Just(1023), Just(1400), 0u16..1400], 0u8..=24, proptest::option::weighted(0.6, (0u8..40, prop_oneof![Just(2u16), 2u16..1400])))
                .prop_map(|(slot, data_len, first, mixed)| Hostile::OddShred { slot, data_len, first, mixed }),
            2 => (slot.clone(), 0u8..64, 0u8..6).prop_map(|(slot, which, field)| Hostile::MutatedShred { slot, which, field }),
            2 => (prop_oneof![0u64..8, Just(u64::MAX)], 0u8..3, slot.clone(), prop_oneof![0u64..4, Just(1023u64)], 0u64..64).prop_map(|(sender, kind, slot, slice, shred)| Hostile::RepairRequest { sender, kind, slot, slice, shred }),
            1 => (0u8..4, slot).prop_map(|(kind, slot)| Hostile::RepairResponse { kind, slot }),
            2 => (1u8..40, prop_oneof![Just(600u16), Just(1400), Just(512), Just(513), 0u16..1490]).prop_map(|(count, len)| Hostile::Transactions { count, len }),
        ];
        let shred_delay = prop_oneof![3 => Just(0u16), 1 => 21u16..400];
        // transaction floods: mostly runs of maximum-size transactions (62 fill a slice) separated by
        // one transaction whose length moves the free space of the slice across every residue
        let group = prop_oneof![
            4 => (55u8..=62, Just(512u16)),
            4 => (Just(1u8), 470u16..=512),
            1 => (1u8..=3, 513u16..=1400),
            2 => (1u8..=20, 0u16..=512),
        ];
        let client = (0u8..4, 0u16..6400, prop::collection::vec(group, 1..40), prop::option::weighted(0.35, (513u16..=1400, 10u16..=150)))
            .prop_map(|(target, at_ms, groups, drip)| ClientSpec { target, at_ms, groups, drip });
        (4u8..=6, any::<u8>(), any::<u64>(), prop::collection::vec((0u8..100, any::<u8>(), hostile), 1..40), 4u8..10, shred_delay, prop::option::weighted(0.25, client))
            .prop_map(|(n, byz, seed, hostile, hostile_phase_s, shred_delay_ms, client)| Case { n, byz, seed, hostile, hostile_phase_s, equal_stakes: false, shred_delay_ms, client })
            .boxed()
    }
    fn max_shrink_iters(&self) -> u32 {
        40
    }
    fn regressions(&self) -> Vec<Case> {
        vec![
            // known finding: one notar vote of a 20 % validator for an unknown block starts the repair storm
            Case {
                n: 5,
                byz: 1,
                seed: 3,
                hostile: vec![(5, 255, Hostile::Vote { kind: VKind::Notar, slot: SlotPick::Current, block: 1 })],
                hostile_phase_s: 4,
                equal_stakes: true,
                shred_delay_ms: 0,
                client: None,
            },
            // known finding: Byzantine leader of the first window shows its slot-1 block to some nodes only
            serde_json::from_str(include_str!("../../regress/C10-genesis-split.json")).expect("regression case parses"),
            // a validly signed shred set whose coding shred 38 has another (even) length, sent as shreds 8..48 so that
            // reconstruction has to use coding shreds (seeded change C10-G: coding shreds no longer size-checked)
            Case {
                n: 6,
                byz: 1,
                seed: 5,
                hostile: vec![
                    (3, 255, Hostile::OddShred { slot: SlotPick::OwnWindow(1), data_len: 64, first: 8, mixed: Some((30, 128)) }),
                    (5, 255, Hostile::OddShred { slot: SlotPick::OwnWindow(2), data_len: 1000, first: 20, mixed: Some((15, 2)) }),
                ],
                hostile_phase_s: 6,
                equal_stakes: false,
                shred_delay_ms: 0,
                client: None,
            },
            // fixed defects: oversized transactions; block for the last window before u64::MAX; parent in the same slot
            Case {
                n: 6,
                byz: 1,
                seed: 4,
                hostile: vec![
                    (3, 255, Hostile::Transactions { count: 1, len: 600 }),
                    (4, 255, Hostile::Transactions { count: 30, len: 1400 }),
                    (10, 255, Hostile::Block { slot: SlotPick::LastWindow(1), malform: BlockMalform::UndecodableData, slices: 1 }),
                    (20, 255, Hostile::Block { slot: SlotPick::OwnWindow(1), malform: BlockMalform::ParentSameSlot, slices: 2 }),
                ],
                hostile_phase_s: 6,
                equal_stakes: false,
                shred_delay_ms: 0,
                client: None,
            },
        ]
    }
    fn run(&self, case: &Case) -> Outcome {
        match catch(|| with_runtime(true, case.seed, run(case))) {
            Ok(o) => o,
            Err(p) => {
                let mut o = Outcome::default();
                o.violate(format!("C10/panic/{}/{}", panic_site(&p), panic_msg(&p)), p);
                o
            }
        }
    }
}

fn pick_slot(p: SlotPick, n: u64, byz: u64, now_slot: u64) -> u64 {
    let cur_w = now_slot / 4;
    // next window led by byz at or after the current one
    let mut w = cur_w;
    while w % n != byz {
        w += 1;
    }
    match p {
        SlotPick::OwnWindow(o) => w * 4 + o as u64 % 4,
        SlotPick::FarWindow(k, o) => (w + n * k as u64 * 50) * 4 + o as u64 % 4,
        SlotPick::LastWindow(o) => {
            let mut lw = u64::MAX / 4;
            while lw % n != byz {
                lw -= 1;
            }
            lw * 4 + o as u64 % 4
        }
        SlotPick::Current => now_slot,
        SlotPick::Max => u64::MAX,
    }
}

/// Builds a validly signed shred set over arbitrary raw shred payloads (what a Byzantine leader can sign).
fn crafted_shreds(slot: u64, slice: usize, is_last: bool, data_len: usize, signer: usize, mixed: Option<(usize, usize)>) -> Vec<Vec<u8>> {
    let len_of = |i: usize| match mixed {
        Some((j, l)) if j == i => l,
        _ => data_len,
    };
    let raw: Vec<Vec<u8>> = (0..64).map(|i| prng_bytes(i as u64 ^ slot, len_of(i))).collect();
    let tree = SliceMerkleTree::new(raw.iter());
    let root = tree.get_root();
    let mut commitment = Vec::new();
    commitment.extend_from_slice(&slot.to_le_bytes());
    commitment.extend_from_slice(&(slice as u64).to_le_bytes());
    commitment.push(is_last as u8);
    commitment.extend_from_slice(root.as_ref());
    let sig = keys().sig[signer].sign_bytes(&commitment);
    let sig_bytes = wincode::serialize(&sig).unwrap_or_default();
    (0..64)
        .map(|i| {
            let proof: alpenglow::crypto::merkle::SliceProof = tree.create_proof(i);
            let proof: Vec<[u8; 32]> = proof.as_ref().iter().map(|h| h.as_ref().try_into().unwrap()).collect();
            ShredParts { coding: i >= 32, slot, slice_index: slice as u64, is_last: is_last as u8, shred_index: i as u64, data: raw[i].clone(), sig: sig_bytes.clone(), proof }.to_bytes()
        })
        .collect()
}

fn hostile_bytes(h: &Hostile, n: usize, byz: usize, now_slot: u64) -> Vec<(Iface, Vec<u8>)> {
    let n64 = n as u64;
    let mut out: Vec<(Iface, Vec<u8>)> = Vec::new();
    match h {
        Hostile::Junk { iface, seed, len } => {
            let i = [Iface::All2All, Iface::Disseminator, Iface::RepairRequester, Iface::RepairResponder, Iface::Tx][*iface as usize % 5];
            out.push((i, prng_bytes(*seed, *len as usize)));
        }
        Hostile::Vote { kind, slot, block } => {
            let s = pick_slot(*slot, n64, byz as u64, now_slot);
            let m = ConsensusMessage::Vote(make_vote(VoteSpec { kind: *kind, slot: s, block: 7000 + *block as u64, signer: byz }.norm()));
            out.push((Iface::All2All, wincode::serialize(&m).unwrap_or_default()));
        }
        Hostile::VoteBadSigner { signer } => {
            let m = ConsensusMessage::Vote(make_vote(VoteSpec { kind: VKind::Skip, slot: now_slot, block: 0, signer: byz }));
            let mut b = wincode::serialize(&m).unwrap_or_default();
            let l = b.len();
            b[l - 8..].copy_from_slice(&signer.to_le_bytes());
            out.push((Iface::All2All, b));
        }
        Hostile::Cert { kind, slot, mask_extra } => {
            let s = pick_slot(*slot, n64, byz as u64, now_slot);
            // all validators "sign" (the harness holds every key, but only uses the Byzantine one plus
            // a changed mask length so that the certificate cannot be valid)
            let spec = CertSpec { kind: *kind, slot: s, block: 7001, primary: vec![byz], fallback: vec![] };
            let infos = crate::fixtures::nsim::validator_infos(&vec![1; n]);
            let cert = make_cert(&spec, &infos);
            let mut b = wincode::serialize(&ConsensusMessage::Cert(cert)).unwrap_or_default();
            if *mask_extra != 0 {
                // num_bits field of the first aggregate: after tag(4) tag(4) slot(8) [hash(32)] [opt(1)] sig(96)
                let mut off = 16 + if kind.has_hash() { 32 } else { 0 };
                if matches!(kind, CKind::NotarFallback | CKind::Skip) {
                    off += 1;
                }
                off += 96;
                if b.len() >= off + 8 {
                    let nb = (n as i64 + *mask_extra as i64).max(0) as u64;
                    b[off..off + 8].copy_from_slice(&nb.to_le_bytes());
                }
            }
            out.push((Iface::All2All, b));
        }
        Hostile::Block { slot, malform, slices } => {
            let s = pick_slot(*slot, n64, byz as u64, now_slot);
            let k = (*slices as usize).max(1);
            let good_parent = if s > 0 { Some((s.saturating_sub(1).min(now_slot), 50u64)) } else { None };
            let mut specs: Vec<alpenglow::types::Slice> = Vec::new();
            for i in 0..k {
                let parent = if i == 0 { good_parent } else { None };
                let data = tx_data(&[Transaction(prng_bytes(s ^ i as u64, 20))]);
                specs.push(make_slice(s, i, i + 1 == k, parent, data));
            }
            let mut extra: Vec<alpenglow::types::Slice> = Vec::new();
            match malform {
                BlockMalform::None => {}
                BlockMalform::ParentSameSlot => specs[0].parent = Some(bid(s, 51)),
                BlockMalform::ParentLater => specs[0].parent = Some(bid(s.saturating_add(3), 51)),
                BlockMalform::ParentSwitchedTwice => {
                    for (j, sl) in specs.iter_mut().enumerate().skip(1) {
                        sl.parent = Some(bid(j as u64, 60 + j as u64));
                    }
                }
                BlockMalform::ParentSwitchedToSelfSlot => {
                    if k >= 2 {
                        specs[k - 1].parent = Some(bid(s, 52));
                    }
                }
                BlockMalform::UndecodableData => specs[k - 1].data = vec![0xff; 11],
                BlockMalform::NoParent => specs[0].parent = None,
                BlockMalform::TwoLastSlices => specs[0].is_last = true,
                BlockMalform::SliceBeyondLast => {
                    let mut sl = specs[k - 1].clone();
                    sl.slice_index = slice_index(k);
                    sl.is_last = false;
                    sl.parent = None;
                    extra.push(sl);
                }
                BlockMalform::ConflictingVersions => {
                    let mut sl = specs[0].clone();
                    sl.data = tx_data(&[Transaction(vec![1, 2, 3])]);
                    extra.push(sl);
                }
            }
            for sl in specs.iter().chain(extra.iter()) {
                if let Ok(shreds) = RegularShredder::default().shred(sl, &keys().sig[byz]) {
                    for sh in shreds.iter() {
                        out.push((Iface::Disseminator, wincode::serialize(sh.as_shred()).unwrap_or_default()));
                    }
                }
            }
        }
        Hostile::OddShred { slot, data_len, first, mixed } => {
            let s = pick_slot(*slot, n64, byz as u64, now_slot);
            let first = (*first as usize).min(24);
            // with a mixed-size shred the common length is made even and non-zero, so that the set is not
            // refused for its size alone
            let (len, mixed) = match mixed {
                Some((j, l)) => (((*data_len as usize) & !1).max(2), Some((first + *j as usize % 40, ((*l as usize) & !1).max(2)))),
                None => (*data_len as usize, None),
            };
            for b in crafted_shreds(s, 0, true, len, byz, mixed).into_iter().skip(first).take(40) {
                out.push((Iface::Disseminator, b));
            }
        }
        Hostile::MutatedShred { slot, which, field } => {
            let s = pick_slot(*slot, n64, byz as u64, now_slot);
            let sl = make_slice(s, 0, true, Some((0, 0)), tx_data(&[]));
            if let Ok(shreds) = RegularShredder::default().shred(&sl, &keys().sig[byz]) {
                for (i, sh) in shreds.iter().enumerate() {
                    let mut p = ShredParts::of(sh.as_shred());
                    if i == *which as usize {
                        match field % 6 {
                            0 => p.coding = !p.coding,
                            1 => p.is_last ^= 1,
                            2 => p.shred_index = (p.shred_index + 1) % 64,
                            3 => {
                                p.proof.pop();
                            }
                            4 => p.data.truncate(p.data.len().saturating_sub(1)),
                            _ => p.slice_index = 1023,
                        }
                    }
                    out.push((Iface::Disseminator, p.to_bytes()));
                }
            }
        }
        Hostile::RepairRequest { sender, kind, slot, slice, shred } => {
            let s = pick_slot(*slot, n64, byz as u64, now_slot);
            let block = bid(s.max(1), 7002);
            let t = match kind % 3 {
                0 => RepairRequestType::LastSliceRoot(block),
                1 => RepairRequestType::SliceRoot(block, slice_index(*slice as usize % 1024)),
                _ => RepairRequestType::Shred(block, slice_index(*slice as usize % 1024), shred_index(*shred as usize % 64)),
            };
            let mut b = sender.to_le_bytes().to_vec();
            b.extend(wincode::serialize(&t).unwrap_or_default());
            out.push((Iface::RepairResponder, b));
        }
        Hostile::RepairResponse { kind, slot } => {
            let s = pick_slot(*slot, n64, byz as u64, now_slot);
            let block = bid(s.max(1), 7003);
            let t = RepairRequestType::LastSliceRoot(block.clone());
            let root: alpenglow::crypto::merkle::SliceRoot = alpenglow::crypto::hash(b"x").into();
            let r = match kind % 4 {
                0 => alpenglow::repair::RepairResponse::Nack(t),
                1 => alpenglow::repair::RepairResponse::LastSliceRoot(t, slice_index(3), root, vec![].into()),
                2 => alpenglow::repair::RepairResponse::SliceRoot(RepairRequestType::SliceRoot(block, slice_index(0)), root, vec![alpenglow::crypto::hash(b"y")].into()),
                _ => alpenglow::repair::RepairResponse::SliceRoot(t, root, vec![].into()),
            };
            out.push((Iface::RepairRequester, wincode::serialize(&r).unwrap_or_default()));
        }
        Hostile::Transactions { count, len } => {
            for i in 0..*count {
                let tx = Transaction(prng_bytes(i as u64, *len as usize));
                out.push((Iface::Tx, wincode::serialize(&tx).unwrap_or_default()));
            }
        }
    }
    out
}

/// Client scenario: four correct validators, one of them receives a flood of transactions while
/// it is not (or is) leader. Oracle: no task panics; an observer blockstore fed with the shreds
/// the target sent as leader reconstructs every one of its blocks (never an invalid block - the
/// leader is correct); the transactions in those blocks are, in order, exactly the transactions
/// of admissible size that were sent (each once, nothing invented, oversized ones dropped), all of
/// them once the target has led a full window after the flood; every node keeps finalising.
async fn run_client(case: &Case, spec: &ClientSpec) -> Outcome {
    use alpenglow::consensus::{Blockstore, BlockstoreEvent};
    use alpenglow::shredder::{Shred, ValidatedShred};
    let mut out = Outcome::default();
    out.label("client-flood");
    let n = 4usize;
    let stakes = vec![1u64; n];
    let target = spec.target as usize % n;
    let switch = Switch::new(Box::new(|_f, _t, _i, _c| Some(20)));
    switch.record_shreds(true);
    let nodes: Vec<SimNode> = (0..n).map(|i| start_node(&switch, &stakes, i, Diss::Rotor)).collect();
    let mut sent: Vec<Vec<u8>> = Vec::new();
    let mut t = 0u64;
    let end = spec.at_ms as u64 + 8_500;
    let mut injected = false;
    let mut fin_at_inject = 0u64;
    let step = spec.drip.map(|(_, p)| (p as u64).clamp(10, 100)).unwrap_or(100);
    if spec.drip.is_some() {
        out.label("client-drip-of-oversized-transactions");
    }
    let mut drip_i = 0u64;
    while t < end && !out.failed() {
        if !injected && t >= spec.at_ms as u64 {
            injected = true;
            for nd in &nodes {
                fin_at_inject = fin_at_inject.max(nd.finalized_slot().await);
            }
            let mut i = 0u64;
            for (count, len) in &spec.groups {
                for _ in 0..*count {
                    let mut payload = prng_bytes(case.seed ^ i, *len as usize);
                    if payload.len() >= 8 {
                        payload[..8].copy_from_slice(&i.to_le_bytes());
                    }
                    i += 1;
                    let tx = Transaction(payload);
                    switch.inject(addr(Iface::Tx, target), wincode::serialize(&tx).unwrap_or_default());
                    sent.push(tx.0);
                }
            }
        } else if injected
            && let Some((len, _)) = spec.drip
        {
            drip_i += 1;
            let tx = Transaction(prng_bytes(case.seed ^ (drip_i << 32), len as usize));
            switch.inject(addr(Iface::Tx, target), wincode::serialize(&tx).unwrap_or_default());
        }
        advance(step).await;
        t += step;
        let panics = take_panics();
        if !panics.is_empty() {
            let p = panics.join(" | ");
            out.violate(format!("C10/task-panic/{}/{}", panic_site(&p), panic_msg(&p)), format!("client flood {:?} towards validator {target} at {} ms; at {t} ms: {p}", spec.groups, spec.at_ms));
        }
    }
    let mut fins = Vec::new();
    for nd in &nodes {
        fins.push(nd.finalized_slot().await);
    }
    for nd in &nodes {
        nd.cancel.cancel();
        nd.task.abort();
    }
    out.trace = Some(switch.trace_hash());
    if out.failed() {
        return out;
    }
    out.nontrivial = sent.len() >= 62;
    // --- what the target disseminated as leader, as a follower sees it
    let pk = keys().sig[target].to_pk();
    let mut obs = crate::fixtures::blocks::Store::new();
    let mut seen: std::collections::BTreeSet<(u64, u64, u64)> = std::collections::BTreeSet::new();
    let mut blocks: Vec<(u64, alpenglow::BlockId)> = Vec::new();
    let mut invalid: Vec<u64> = Vec::new();
    for (from, _to, bytes) in switch.take_shred_log() {
        if from != target {
            continue;
        }
        let Some(p) = ShredParts::parse(&bytes) else { continue };
        if (p.slot / 4 % n as u64) as usize != target || !seen.insert((p.slot, p.slice_index, p.shred_index)) {
            continue;
        }
        let Ok(shred) = alpenglow::network::deserialize::<Shred>(&bytes) else { continue };
        let Ok(v) = ValidatedShred::try_new(shred, None, &pk) else {
            out.violate("C10/client/leader-sent-invalid-shred", format!("slot {} slice {} shred {}", p.slot, p.slice_index, p.shred_index));
            return out;
        };
        let _ = obs.store.add_shred_from_dissemination(v).await;
        for e in obs.drain() {
            match e {
                BlockstoreEvent::Block { slot, block_info } => blocks.push((slot.inner(), (slot, block_info.verif_hash().clone()))),
                BlockstoreEvent::InvalidBlock(s) => invalid.push(s.inner()),
                _ => {}
            }
        }
    }
    out.checks += 1;
    if !invalid.is_empty() {
        out.violate(
            "C10/client/correct-leaders-block-undecodable",
            format!("client flood {:?} towards validator {target} at {} ms: a follower fed with the shreds the correct leader {target} disseminated flags slots {invalid:?} as invalid", spec.groups, spec.at_ms),
        );
        return out;
    }
    blocks.sort();
    let mut included: Vec<Vec<u8>> = Vec::new();
    for (_, id) in &blocks {
        if let Some(b) = obs.store.get_block(id) {
            let (_, _, _, txs) = b.verif_parts();
            included.extend(txs.iter().map(|t| t.0.clone()));
        }
    }
    let accepted: Vec<&Vec<u8>> = sent.iter().filter(|p| p.len() <= alpenglow::MAX_TRANSACTION_SIZE).collect();
    out.checks += 1;
    let is_prefix = included.len() <= accepted.len() && included.iter().zip(&accepted).all(|(a, b)| a == *b);
    if !is_prefix {
        let first_bad = included.iter().zip(&accepted).position(|(a, b)| a != *b).unwrap_or(accepted.len().min(included.len()));
        out.violate(
            "C10/client/blocks-do-not-carry-the-sent-transactions",
            format!(
                "client flood {:?} towards validator {target}: {} admissible transactions sent, the leader's blocks carry {}; first difference at position {first_bad} (a transaction was lost, duplicated, reordered, invented or an oversized one included)",
                spec.groups,
                accepted.len(),
                included.len()
            ),
        );
        return out;
    }
    // the target led a whole window that started after the flood: everything must be in by now
    out.checks += 1;
    if included.len() < accepted.len() {
        out.violate(
            "C10/client/transactions-never-included",
            format!("client flood {:?} towards validator {target} at {} ms: only {} of {} admissible transactions appear in the blocks it produced during the following 8.5 s (finalized slots {fins:?})", spec.groups, spec.at_ms, included.len(), accepted.len()),
        );
        return out;
    }
    // a correct leader on a timely, fault-free network produces (and nobody skips) all four blocks
    // of each of its windows, whatever the clients send
    let min_fin = fins.iter().copied().min().unwrap_or(0);
    let have: std::collections::BTreeSet<u64> = blocks.iter().map(|b| b.0).collect();
    for w in 1..=(min_fin / 4) {
        if (w % n as u64) as usize != target || w * 4 < fin_at_inject + 6 || w * 4 + 3 > min_fin {
            continue;
        }
        out.checks += 1;
        let missing: Vec<u64> = (w * 4..w * 4 + 4).filter(|s| !have.contains(s)).collect();
        if !missing.is_empty() {
            out.violate(
                "C10/client/leader-stopped-producing",
                format!("client flood {:?} (drip {:?}) towards validator {target} at {} ms: in its window {w}, which every node has finalised past, it disseminated no complete block for slots {missing:?}", spec.groups, spec.drip, spec.at_ms),
            );
            return out;
        }
    }
    out.checks += 1;
    let expect = (end / 400).saturating_sub(12);
    if fins.iter().any(|f| *f < expect) {
        out.violate("C10/client/node-stopped-finalising", format!("client flood {:?} towards validator {target} at {} ms: finalized slots {fins:?} after {end} ms, expected at least {expect}", spec.groups, spec.at_ms));
    }
    out
}

async fn run(case: &Case) -> Outcome {
    if let Some(spec) = &case.client {
        return run_client(case, spec).await;
    }
    let mut out = Outcome::default();
    let n = case.n as usize;
    let byz = case.byz as usize % n;
    let mut stakes = vec![4u64; n];
    if !case.equal_stakes {
        stakes[byz] = n as u64 - 2;
    }
    let byz_below_20 = stakes[byz] * 5 < stakes.iter().sum::<u64>();
    let live: Vec<usize> = (0..n).filter(|i| *i != byz).collect();
    let switch = Switch::new(Box::new(|_f, _t, _i, _c| Some(20)));
    if case.shred_delay_ms > 20 {
        let d = case.shred_delay_ms as u64;
        switch.set_policy(Box::new(move |_f, _t, i, _c| Some(if i == Iface::Disseminator { d } else { 20 })));
        out.label("slow-shreds");
    }
    let nodes: Vec<SimNode> = live.iter().map(|i| start_node(&switch, &stakes, *i, Diss::Rotor)).collect();

    let mut schedule: Vec<(u64, u8, &Hostile)> = case.hostile.iter().map(|(t, m, h)| ((*t as u64 % (case.hostile_phase_s as u64 * 10)) * 100, *m, h)).collect();
    schedule.sort_by_key(|x| x.0);
    let mut t = 0u64;
    let mut si = 0usize;
    let phase = case.hostile_phase_s as u64 * 1000;
    // warm-up so that the chain is moving
    advance(1500).await;
    while t <= phase {
        while si < schedule.len() && schedule[si].0 <= t {
            let (_, mask, h) = schedule[si];
            si += 1;
            let mut max_fin = 0;
            for nd in &nodes {
                max_fin = max_fin.max(nd.finalized_slot().await);
            }
            let msgs = hostile_bytes(h, n, byz, max_fin + 1);
            out.label(format!("hostile={}", format!("{h:?}").split([' ', '{', '(']).next().unwrap_or("")));
            if !matches!(h, Hostile::Junk { .. }) {
                out.nontrivial = true;
            }
            for (iface, bytes) in msgs {
                for (j, v) in live.iter().enumerate() {
                    if mask >> (j % 8) & 1 == 1 || mask == 0 {
                        switch.inject(addr(iface, *v), bytes.clone());
                    }
                }
            }
        }
        advance(100).await;
        t += 100;
        let panics = take_panics();
        if !panics.is_empty() {
            let p = panics.join(" | ");
            out.violate(format!("C10/task-panic/{}/{}", panic_site(&p), panic_msg(&p)), format!("at {t} ms of the hostile phase: {p}"));
            break;
        }
        if switch.repair_storm() {
            let sig = "C10/repair-message-storm";
            if crate::engine::is_known("C10", sig) {
                out.excluded_known += 1;
            }
            out.violate(sig, format!("n={n} byzantine {byz}: more than 60000 repair messages were exchanged within {t} virtual ms (a request negatively acknowledged by several peers is re-sent once per acknowledgement, to up to three peers each time)"));
            break;
        }
    }
    // --- recovery: the nodes must keep finalising and answering
    switch.set_policy(Box::new(|_f, _t, _i, _c| Some(20)));
    if !out.failed() {
        let mut before = Vec::new();
        for nd in &nodes {
            before.push(nd.finalized_slot().await);
        }
        let mut waited = 0;
        let mut after = before.clone();
        while waited < 12_000 {
            advance(500).await;
            waited += 500;
            let panics = take_panics();
            if !panics.is_empty() {
                let p = panics.join(" | ");
                out.violate(format!("C10/task-panic/{}/{}", panic_site(&p), panic_msg(&p)), format!("during recovery: {p}"));
                break;
            }
            if switch.repair_storm() {
                let sig = "C10/repair-message-storm";
                if crate::engine::is_known("C10", sig) {
                    out.excluded_known += 1;
                }
                out.violate(sig, format!("n={n} byzantine {byz}: more than 60000 repair messages during recovery"));
                break;
            }
            after.clear();
            for nd in &nodes {
                after.push(nd.finalized_slot().await);
            }
            if after.iter().zip(&before).all(|(a, b)| *a >= *b + 8) {
                break;
            }
        }
        if !out.failed() {
            out.checks += 1;
            if byz_below_20 && !after.iter().zip(&before).all(|(a, b)| *a >= *b + 8) {
                let log = switch.take_consensus_log();
                let from = after.iter().copied().min().unwrap_or(0) + 1;
                let summary = crate::fixtures::nsim::summarize_consensus(&log, from, 8);
                // root cause shared with the C02 finding: nothing is finalised yet and the correct
                // nodes split between notarising and skipping the child of genesis, which can
                // never become safe-to-notar because genesis has no certificate
                let split = crate::fixtures::nsim::slot_split(&log, 1, byz);
                if after.iter().all(|a| *a == 0) && split {
                    let sig = "C10/node-stopped-finalising/split-vote-on-child-of-genesis";
                    if crate::engine::is_known("C10", sig) {
                        out.excluded_known += 1;
                    }
                    out.violate(sig, format!("n={n} byzantine {byz} (leader of the first window, {} of {} stake): no node finalised anything; votes/certificates for the first slots: {summary}", stakes[byz], stakes.iter().sum::<u64>()));
                } else {
                    out.violate(
                        "C10/node-stopped-finalising",
                        format!("n={n} byzantine {byz}: finalized slots {before:?} at the end of the hostile phase, {after:?} after 12 more virtual seconds of clean traffic; votes/certificates seen for the next slots: {summary}"),
                    );
                }
            }
        }
        // probe: a repair request from the (absent) Byzantine validator must still be answered
        if !out.failed() {
            for v in &live {
                let answered_before = switch.routed_to(Iface::RepairRequester, byz);
                let t = RepairRequestType::LastSliceRoot(bid(1, 4242));
                let mut b = (byz as u64).to_le_bytes().to_vec();
                b.extend(wincode::serialize(&t).unwrap_or_default());
                switch.inject(addr(Iface::RepairResponder, *v), b);
                advance(100).await;
                out.checks += 1;
                if switch.routed_to(Iface::RepairRequester, byz) <= answered_before {
                    out.violate("C10/repair-responder-stopped-answering", format!("node {v} did not answer a probe repair request"));
                    break;
                }
            }
        }
    }
    out.trace = Some(switch.trace_hash());
    for nd in &nodes {
        nd.cancel.cancel();
        nd.task.abort();
    }
    out
}
