//! C01 — finalization agreement: correct nodes never finalize conflicting blocks.
//!
//! k correct nodes (real pool + real Votor each) plus Byzantine puppets holding < 20 % of the
//! stake, a harness-owned network (any delay, loss, duplication, reordering, selective delivery)
//! and a paused clock. After every action a cross-node history invariant is evaluated.

use std::collections::{BTreeMap, BTreeSet, HashMap};

use alpenglow::consensus::{Cert, ConsensusMessage, PoolEvent, ValidatedCert, ValidatedVote};
use alpenglow::types::Slot;
use alpenglow::consensus::Pool;
use proptest::prelude::*;
use serde::{Deserialize, Serialize};

use crate::engine::{Outcome, Property, Tier, catch, panic_msg, panic_site, pick_idx};
use crate::fixtures::block_hash;
use crate::fixtures::epoch::epoch;
use crate::fixtures::net::with_runtime;
use crate::fixtures::pool_driver::bid;
use crate::fixtures::pvsim::{Call, PvNode};
use crate::fixtures::votes::{CKind, CertSpec, VKind, VoteSpec, cert_kind, classify_vote, make_cert, make_vote};

#[derive(Clone, Debug, Serialize, Deserialize)]
pub enum Act {
    /// the current slot's leader proposes by the rules (correct leader) or on the tip (Byzantine
    /// leader behaving); the block reaches the nodes in the mask; then `flush` delivery rounds
    Honest { to_mask: u16, flush: u8 },
    /// Byzantine leader only: another block for the current slot, shown to the nodes in the mask
    Propose { tag: u8, parent: u16, to_mask: u16 },
    Announce { block: u16, to_mask: u16 },
    Deliver { msg: u16, to_mask: u16 },
    Flush { rounds: u8, to_mask: u16 },
    ByzVote { who: u8, kind: VKind, dslot: i8, tag: u8, to_mask: u16 },
    /// the adversary aggregates votes it has seen on the wire (plus its own) into a certificate
    ByzCert { kind: CKind, dslot: i8, tag: u8, to_mask: u16 },
    Wait { ms: u16 },
    Next,
    Crash { node: u8 },
    /// Byzantine leader only: block b (parent = tip) to the nodes in the mask, a twin b' (other
    /// parent) to the others, Byzantine notar votes for each to the respective group
    Equivocate { split_mask: u16, parent2: u16, flush: u8, twin_late: bool },
    /// deliver every in-flight message of one class (0..=4 vote kinds, 5 = certificates) for the
    /// slot cursor+dslot to the nodes in the mask
    DeliverWhere { what: u8, dslot: i8, to_mask: u16 },
    /// a split round: the leader's block reaches only the nodes in the mask, the others time out
    /// and skip; then skip votes, notar votes, the late block, certificates and fallback votes are
    /// delivered to everybody in the order-th permutation
    SplitRound { got_block: u16, order: u16 },
}

#[derive(Clone, Debug, Serialize, Deserialize)]
pub struct Case {
    pub stakes: Vec<u64>,
    /// candidate order for the Byzantine set (greedily filled while < 20 % of the stake)
    pub byz_order: Vec<u8>,
    pub byz_count: u8,
    pub seed: u64,
    pub acts: Vec<Act>,
}

pub struct C01;

impl Property for C01 {
    type Case = Case;
    fn id(&self) -> &'static str {
        "C01"
    }
    fn cases(&self, tier: Tier) -> u32 {
        tier.pick(2_400, 60_000)
    }
    fn rule(&self) -> String {
        "cases: 5..=10 validators with equal, small-integer or threshold-exact stakes (40/60 and 20/80 splits reachable), a Byzantine set of 0..=2 validators holding strictly less than \
         20 % (exactly-below cases included), any further validators crashed at generated points; leaders rotate per \
         window (correct leaders: one block per slot with a parent from their own ready-parent set or their own previous \
         block; Byzantine leaders: several blocks per slot shown to different nodes, arbitrary known parents); generated \
         actions: rule-following rounds with partial block delivery, selective delivery / loss / duplication / reordering of \
         every vote and certificate broadcast by the real Votors, Byzantine votes of every kind sent to chosen subsets, \
         certificates aggregated by the adversary from any votes seen on the wire plus its own, sent to chosen subsets, \
         virtual-time waits that fire timeouts, slot advances, crashes. Oracle (after every action): no two correct nodes \
         finalise different blocks for a slot; all finalised blocks lie on one chain of the block registry; no slot is \
         finalised at one correct node and skip-certified at any; finalized_slot never decreases; none of the code's own \
         'consensus safety violation' assertions fires; no pool call or voting task panics. Non-trivial: >= 2 correct \
         nodes finalised >= 1 slot and the history contains competing blocks or a Byzantine equivocation."
            .into()
    }
    fn assumptions(&self) -> Vec<String> {
        vec![
            "the adversary is template-guided random search over small validator sets, not a worst-case strategy enumerator".into(),
            "correct leaders are modelled conservatively (at most one block per slot, parents by the protocol rules)".into(),
            "BLS / hash assumptions; paused single-thread runtime with seeded select! order".into(),
        ]
    }
    fn strategy(&self, _tier: Tier) -> BoxedStrategy<Case> {
        let stakes = prop_oneof![
            3 => (5usize..=10).prop_map(|n| vec![1u64; n]),
            2 => prop::collection::vec(1u64..=4, 5..=9),
            2 => crate::fixtures::epoch::stakes_strategy(5, 10).prop_filter("stakes must stay small", |v| v.iter().all(|s| *s < 1_000_000)),
        ];
        let mask = (any::<u16>(), any::<u16>()).prop_map(|(a, b)| a | b);
        let dslot = prop_oneof![5 => Just(0i8), 2 => Just(-1i8), 1 => Just(1i8), 1 => Just(-2i8)];
        let vk = prop_oneof![4 => Just(VKind::Notar), 2 => Just(VKind::NotarFallback), 3 => Just(VKind::Skip), 2 => Just(VKind::SkipFallback), 3 => Just(VKind::Final)];
        let ck = prop_oneof![Just(CKind::Notar), Just(CKind::NotarFallback), Just(CKind::Skip), Just(CKind::FastFinal), Just(CKind::Final)];
        let act = prop_oneof![
            8 => (prop_oneof![mask.clone(), any::<u16>()], 0u8..4).prop_map(|(to_mask, flush)| Act::Honest { to_mask, flush }),
            4 => (0u8..3, any::<u16>(), any::<u16>()).prop_map(|(tag, parent, to_mask)| Act::Propose { tag, parent, to_mask }),
            2 => (any::<u16>(), any::<u16>()).prop_map(|(block, to_mask)| Act::Announce { block, to_mask }),
            6 => (any::<u16>(), any::<u16>()).prop_map(|(msg, to_mask)| Act::Deliver { msg, to_mask }),
            5 => (1u8..3, mask.clone()).prop_map(|(rounds, to_mask)| Act::Flush { rounds, to_mask }),
            6 => (any::<u8>(), vk, dslot.clone(), 0u8..3, any::<u16>()).prop_map(|(who, kind, dslot, tag, to_mask)| Act::ByzVote { who, kind, dslot, tag, to_mask }),
            4 => (ck, dslot, 0u8..3, any::<u16>()).prop_map(|(kind, dslot, tag, to_mask)| Act::ByzCert { kind, dslot, tag, to_mask }),
            3 => prop_oneof![0u16..300, 700u16..1300].prop_map(|ms| Act::Wait { ms }),
            4 => Just(Act::Next),
            1 => any::<u8>().prop_map(|node| Act::Crash { node }),
            5 => (prop_oneof![any::<u16>(), mask.clone()], any::<u16>(), 0u8..4, any::<bool>()).prop_map(|(split_mask, parent2, flush, twin_late)| Act::Equivocate { split_mask, parent2, flush, twin_late }),
            8 => (0u8..6, prop_oneof![4 => Just(0i8), 2 => Just(-1i8), 1 => Just(-2i8)], any::<u16>()).prop_map(|(what, dslot, to_mask)| Act::DeliverWhere { what, dslot, to_mask }),
            6 => (any::<u16>(), 0u16..720).prop_map(|(got_block, order)| Act::SplitRound { got_block, order }),
        ];
        (stakes, (prop_oneof![3 => Just(0u8), 1 => 0u8..3], prop_oneof![2 => Just(1u8), 1 => any::<u8>()], any::<u8>()).prop_map(|(a, b, c)| vec![a, b, c]), prop_oneof![1 => Just(0u8), 3 => Just(1u8), 2 => Just(2u8)], any::<u64>(), prop::collection::vec(act, 1..70))
            .prop_map(|(stakes, byz_order, byz_count, seed, acts)| Case { stakes, byz_order, byz_count, seed, acts })
            .boxed()
    }
    fn max_shrink_iters(&self) -> u32 {
        60
    }
    fn run(&self, case: &Case) -> Outcome {
        match catch(|| with_runtime(true, case.seed, run(case))) {
            Ok(o) => o,
            Err(p) => {
                let mut o = Outcome::default();
                o.violate(format!("C01/panic/{}/{}", panic_site(&p), panic_msg(&p)), p);
                o
            }
        }
    }
}

#[derive(Clone)]
struct Blk {
    slot: u64,
    tag: u64,
    parent: (u64, u64),
}

struct World {
    n: usize,
    stakes: Vec<u64>,
    byz: Vec<bool>,
    nodes: Vec<Option<PvNode>>,
    blocks: Vec<Blk>,
    announced: Vec<BTreeSet<(u64, u64)>>,
    /// in-flight consensus messages (deduplicated by encoding)
    inflight: Vec<ConsensusMessage>,
    seen: BTreeSet<Vec<u8>>,
    /// votes seen on the wire: (kind, slot, tag) -> signers
    wire_votes: BTreeMap<(VKind, u64, u64), BTreeSet<usize>>,
    valid_certs: HashMap<Vec<u8>, Option<ValidatedCert>>,
    valid_votes: HashMap<Vec<u8>, Option<ValidatedVote>>,
    proposed_by_correct: BTreeSet<u64>,
    last_finalized: Vec<u64>,
    events_scanned: Vec<usize>,
    skip_certs: BTreeMap<u64, Vec<usize>>,
    equivocation: bool,
    competing: bool,
}

fn tag_of(h: &alpenglow::crypto::merkle::BlockHash, blocks: &[Blk]) -> u64 {
    if h == &alpenglow::crypto::merkle::GENESIS_BLOCK_HASH {
        return 0;
    }
    blocks.iter().map(|b| b.tag).find(|t| &block_hash(*t) == h).unwrap_or(u64::MAX)
}

impl World {
    fn leader(&self, slot: u64) -> usize {
        (slot / 4 % self.n as u64) as usize
    }
    fn live_correct(&self) -> Vec<usize> {
        (0..self.n).filter(|i| !self.byz[*i] && self.nodes[*i].as_ref().is_some_and(|n| !n.crashed)).collect()
    }

    /// Collects what the nodes broadcast; own messages loop back immediately.
    async fn collect(&mut self, out: &mut Outcome, ep: &alpenglow::consensus::EpochInfo) -> bool {
        for _ in 0..6 {
            let mut any = false;
            for i in 0..self.n {
                let Some(node) = self.nodes[i].as_mut() else { continue };
                if node.crashed {
                    continue;
                }
                if let Some(p) = node.votor_dead() {
                    out.violate(format!("C01/voting-task-died/{}/{}", panic_site(&p), panic_msg(&p)), format!("node {i}: {p}"));
                    return false;
                }
                let msgs = node.take_broadcasts();
                for m in msgs {
                    any = true;
                    let bytes = wincode::serialize(&m).unwrap_or_default();
                    if let ConsensusMessage::Vote(v) = &m {
                        let c = classify_vote(v);
                        let tag = c.hash.as_ref().map(|h| tag_of(h, &self.blocks)).unwrap_or(0);
                        self.wire_votes.entry((c.kind, c.slot, tag)).or_default().insert(c.signer);
                        // loop-back to the sender's own pool
                        let vv = self.valid_votes.entry(bytes.clone()).or_insert_with(|| ValidatedVote::try_new(v.clone(), ep).ok()).clone();
                        if let Some(vv) = vv
                            && let Call::Panicked(p) = self.nodes[i].as_mut().unwrap().add_vote(vv).await
                        {
                            return self.panic(out, &p, i);
                        }
                    }
                    if self.seen.insert(bytes) {
                        self.inflight.push(m);
                    }
                }
            }
            if !any {
                break;
            }
        }
        true
    }

    fn panic(&self, out: &mut Outcome, p: &str, node: usize) -> bool {
        if p.contains("consensus safety violation") {
            out.violate("C01/safety-assertion-fired", format!("node {node}: {p}"));
        } else {
            out.violate(format!("C01/pool-panic/{}/{}", panic_site(p), panic_msg(p)), format!("node {node}: {p}"));
        }
        false
    }

    async fn deliver(&mut self, out: &mut Outcome, ep: &alpenglow::consensus::EpochInfo, m: &ConsensusMessage, to: usize) -> bool {
        if self.byz[to] || self.nodes[to].as_ref().is_none_or(|n| n.crashed) {
            return true;
        }
        match m {
            ConsensusMessage::Vote(v) => {
                // every node verifies the signature itself; the verdict is a pure function of the bytes
                let key = wincode::serialize(v).unwrap_or_default();
                let vv = self.valid_votes.entry(key).or_insert_with(|| ValidatedVote::try_new(v.clone(), ep).ok()).clone();
                let Some(vv) = vv else { return true };
                if let Call::Panicked(p) = self.nodes[to].as_mut().unwrap().add_vote(vv).await {
                    return self.panic(out, &p, to);
                }
            }
            ConsensusMessage::Cert(c) => {
                let key = wincode::serialize(c).unwrap_or_default();
                let vc = self.valid_certs.entry(key).or_insert_with(|| ValidatedCert::try_new(c.clone(), ep).ok()).clone();
                let Some(vc) = vc else { return true };
                if let Call::Panicked(p) = self.nodes[to].as_mut().unwrap().add_cert(vc).await {
                    return self.panic(out, &p, to);
                }
            }
        }
        true
    }

    async fn announce(&mut self, out: &mut Outcome, b: &Blk, to: usize) -> bool {
        if self.byz[to] || self.nodes[to].as_ref().is_none_or(|n| n.crashed) {
            return true;
        }
        if !self.announced[to].insert((b.slot, b.tag)) {
            return true;
        }
        // a node stores at most one disseminated block per slot: a second one is either noticed
        // as leader equivocation (invalid-block notice) or obtained through repair (announced
        // like any reconstructed block)
        if self.announced[to].iter().filter(|k| k.0 == b.slot).count() > 1 && (b.tag as usize + to) % 2 == 0 {
            self.nodes[to].as_mut().unwrap().invalid_block(b.slot).await;
            return true;
        }
        if let Call::Panicked(p) = self.nodes[to].as_mut().unwrap().block(bid(b.slot, b.tag), bid(b.parent.0, b.parent.1), true).await {
            return self.panic(out, &p, to);
        }
        true
    }

    /// The cross-node invariant.
    fn check(&mut self, out: &mut Outcome, step: usize) -> bool {
        let mut fin: BTreeMap<u64, BTreeMap<u64, Vec<usize>>> = BTreeMap::new(); // slot -> tag -> nodes
        // slots finalised *directly* (by certificates). A slot whose block is finalised only
        // through a descendant may legitimately also carry a skip certificate: the protocol lets a
        // leader build on a notar-fallback-certified block of a skip-certified slot.
        let mut direct: BTreeMap<u64, Vec<usize>> = BTreeMap::new();
        for i in 0..self.n {
            let Some(node) = self.nodes[i].as_ref() else { continue };
            for (f, imp, _) in node.pool.verif_fin_log() {
                if let Some(b) = f {
                    direct.entry(b.0.inner()).or_default().push(i);
                }
                for b in f.iter().chain(imp.iter()) {
                    if b.0.inner() == 0 {
                        continue;
                    }
                    fin.entry(b.0.inner()).or_default().entry(tag_of(&b.1, &self.blocks)).or_default().push(i);
                }
            }
            for (_, e) in &node.events[self.events_scanned[i]..] {
                if let PoolEvent::CertCreated(Cert::Skip(_)) = e
                    && let PoolEvent::CertCreated(c) = e
                {
                    self.skip_certs.entry(c.slot().inner()).or_default().push(i);
                }
            }
            self.events_scanned[i] = node.events.len();
            let fs = node.pool.finalized_slot().inner();
            out.checks += 1;
            if fs < self.last_finalized[i] {
                out.violate("C01/finalized-slot-decreased", format!("step {step}: node {i}: {} -> {fs}", self.last_finalized[i]));
                return false;
            }
            self.last_finalized[i] = fs;
        }
        for (slot, tags) in &fin {
            out.checks += 1;
            if tags.len() > 1 {
                out.violate("C01/conflicting-finalisation", format!("step {step}: slot {slot} finalised with different blocks: {tags:?} (tag -> nodes)"));
                return false;
            }
            if let (Some(nodes), Some(dn)) = (self.skip_certs.get(slot), direct.get(slot)) {
                out.violate("C01/finalised-and-skip-certified", format!("step {step}: slot {slot} is finalised by certificates at nodes {dn:?} and skip-certified at nodes {nodes:?}"));
                return false;
            }
        }
        // one chain: walking parents from the highest finalised block must pass through every lower one
        let all: Vec<(u64, u64)> = fin.iter().map(|(s, t)| (*s, *t.keys().next().unwrap())).collect();
        if let Some(&(top_s, top_t)) = all.last() {
            let mut on_chain: BTreeSet<(u64, u64)> = BTreeSet::new();
            let mut cur = (top_s, top_t);
            let mut guard = 0;
            while cur.0 > 0 && guard < 1000 {
                on_chain.insert(cur);
                match self.blocks.iter().find(|b| (b.slot, b.tag) == cur) {
                    Some(b) => cur = b.parent,
                    None => break,
                }
                guard += 1;
            }
            for b in &all {
                out.checks += 1;
                if !on_chain.contains(b) {
                    out.violate("C01/finalised-blocks-not-on-one-chain", format!("step {step}: finalised {all:?}; {b:?} is not an ancestor of {:?}", (top_s, top_t)));
                    return false;
                }
            }
        }
        let finalisers: BTreeSet<usize> = fin.values().flat_map(|t| t.values().flatten().copied()).collect();
        if finalisers.len() >= 2 {
            out.label("two-nodes-finalised");
            if self.equivocation || self.competing {
                out.nontrivial = true;
            }
        }
        true
    }
}

async fn run(case: &Case) -> Outcome {
    let mut out = Outcome::default();
    let n = case.stakes.len();
    let total: u128 = case.stakes.iter().map(|s| *s as u128).sum();
    let ep = epoch(&case.stakes);
    // Byzantine set: greedily while strictly below 20 %
    let mut byz = vec![false; n];
    let mut byz_stake: u128 = 0;
    for c in case.byz_order.iter().take(case.byz_count as usize) {
        let v = *c as usize % n;
        if !byz[v] && (byz_stake + case.stakes[v] as u128) * 5 < total {
            byz[v] = true;
            byz_stake += case.stakes[v] as u128;
        }
    }
    out.label(format!("byzantine={}", byz.iter().filter(|b| **b).count()));
    let nodes: Vec<Option<PvNode>> = (0..n).map(|i| if byz[i] { None } else { Some(PvNode::new(&case.stakes, i)) }).collect();
    let mut w = World {
        n,
        stakes: case.stakes.clone(),
        byz,
        nodes,
        blocks: Vec::new(),
        announced: vec![BTreeSet::new(); n],
        inflight: Vec::new(),
        seen: BTreeSet::new(),
        wire_votes: BTreeMap::new(),
        valid_certs: HashMap::new(),
        valid_votes: HashMap::new(),
        proposed_by_correct: BTreeSet::new(),
        last_finalized: vec![0; n],
        events_scanned: vec![0; n],
        skip_certs: BTreeMap::new(),
        equivocation: false,
        competing: false,
    };
    let mut cursor: u64 = 1;
    let mut tip: (u64, u64) = (0, 0);
    let mask_nodes = |mask: u16, n: usize| -> Vec<usize> { (0..n).filter(|i| mask >> i & 1 == 1).collect() };

    let mut pending: Vec<Act> = case.acts.iter().rev().cloned().collect();
    let mut step = 0usize;
    while let Some(act) = pending.pop() {
        step += 1;
        if step > 600 {
            break;
        }
        for node in w.nodes.iter_mut().flatten() {
            node.step = step;
        }
        let act = &act;
        match act {
            Act::Next => cursor += 1,
            Act::Wait { ms } => {
                tokio::time::sleep(std::time::Duration::from_millis(*ms as u64)).await;
                for node in w.nodes.iter_mut().flatten() {
                    if !node.crashed {
                        node.pump().await;
                    }
                }
            }
            Act::Crash { node } => {
                let v = *node as usize % n;
                // keep at least three correct nodes running
                if !w.byz[v] && w.live_correct().len() > 3 {
                    if let Some(nd) = w.nodes[v].as_mut() {
                        nd.crashed = true;
                        nd.votor_task.abort();
                    }
                    out.label("crash");
                }
            }
            Act::Honest { to_mask, flush } => {
                let slot = cursor;
                let leader = w.leader(slot);
                let mut blk: Option<Blk> = None;
                if w.byz[leader] {
                    let tag = slot * 10 + 1;
                    if !w.blocks.iter().any(|b| b.slot == slot && b.tag == tag) {
                        blk = Some(Blk { slot, tag, parent: if tip.0 < slot { tip } else { (0, 0) } });
                    } else {
                        blk = w.blocks.iter().find(|b| b.slot == slot && b.tag == tag).cloned();
                    }
                } else if w.nodes[leader].as_ref().is_some_and(|n| !n.crashed) {
                    let tag = slot * 10 + 1;
                    if let Some(b) = w.blocks.iter().find(|b| b.slot == slot && b.tag == tag) {
                        blk = Some(b.clone());
                    } else if !w.proposed_by_correct.contains(&slot) {
                        let parent = if slot % 4 == 0 {
                            let pr = w.nodes[leader].as_ref().unwrap().pool.parents_ready(Slot::new(slot));
                            pr.first().map(|p| (p.0.inner(), tag_of(&p.1, &w.blocks)))
                        } else if slot == 1 {
                            Some((0, 0))
                        } else {
                            // its own block of the previous slot in this window
                            w.blocks.iter().find(|b| b.slot == slot - 1 && b.tag == (slot - 1) * 10 + 1 && w.proposed_by_correct.contains(&(slot - 1))).map(|b| (b.slot, b.tag))
                        };
                        if let Some(parent) = parent {
                            w.proposed_by_correct.insert(slot);
                            blk = Some(Blk { slot, tag, parent });
                        }
                    }
                }
                if let Some(b) = blk {
                    if !w.blocks.iter().any(|x| x.slot == b.slot && x.tag == b.tag) {
                        if w.blocks.iter().any(|x| x.slot == b.slot) {
                            w.competing = true;
                        }
                        w.blocks.push(b.clone());
                    }
                    tip = (b.slot, b.tag);
                    for to in mask_nodes(*to_mask | 1 << leader, n) {
                        if !w.announce(&mut out, &b, to).await {
                            return finish(out, w);
                        }
                    }
                }
                for _ in 0..*flush {
                    if !w.collect(&mut out, &ep).await {
                        return finish(out, w);
                    }
                    let msgs = std::mem::take(&mut w.inflight);
                    for m in &msgs {
                        for to in 0..n {
                            if !w.deliver(&mut out, &ep, m, to).await {
                                return finish(out, w);
                            }
                        }
                    }
                }
            }
            Act::Propose { tag, parent, to_mask } => {
                let slot = cursor;
                let leader = w.leader(slot);
                if !w.byz[leader] {
                    continue;
                }
                let t = slot * 10 + 2 + *tag as u64;
                let b = match w.blocks.iter().find(|b| b.slot == slot && b.tag == t) {
                    Some(b) => b.clone(),
                    None => {
                        let mut cands: Vec<(u64, u64)> = vec![(0, 0)];
                        cands.extend(w.blocks.iter().filter(|b| b.slot < slot).map(|b| (b.slot, b.tag)));
                        if tip.0 < slot {
                            cands.push(tip);
                        }
                        let b = Blk { slot, tag: t, parent: cands[pick_idx(*parent, cands.len())] };
                        if w.blocks.iter().any(|x| x.slot == slot) {
                            w.competing = true;
                            w.equivocation = true;
                        }
                        w.blocks.push(b.clone());
                        b
                    }
                };
                for to in mask_nodes(*to_mask, n) {
                    if !w.announce(&mut out, &b, to).await {
                        return finish(out, w);
                    }
                }
            }
            Act::Equivocate { split_mask, parent2, flush, twin_late } => {
                let slot = cursor;
                let leader = w.leader(slot);
                if !w.byz[leader] {
                    continue;
                }
                let (t1, t2) = (slot * 10 + 1, slot * 10 + 2);
                for (t, use_tip) in [(t1, true), (t2, false)] {
                    if !w.blocks.iter().any(|b| b.slot == slot && b.tag == t) {
                        let mut cands: Vec<(u64, u64)> = vec![(0, 0)];
                        cands.extend(w.blocks.iter().filter(|b| b.slot < slot).map(|b| (b.slot, b.tag)));
                        let parent = if use_tip && tip.0 < slot { tip } else { cands[pick_idx(*parent2, cands.len())] };
                        w.blocks.push(Blk { slot, tag: t, parent });
                    }
                }
                w.competing = true;
                w.equivocation = true;
                let b1 = w.blocks.iter().find(|b| b.slot == slot && b.tag == t1).cloned().unwrap();
                let b2 = w.blocks.iter().find(|b| b.slot == slot && b.tag == t2).cloned().unwrap();
                for to in 0..n {
                    let b = if split_mask >> to & 1 == 1 { &b1 } else { &b2 };
                    if !w.announce(&mut out, b, to).await {
                        return finish(out, w);
                    }
                    // the Byzantine validators vote for whatever each node saw
                    let bz: Vec<usize> = (0..n).filter(|i| w.byz[*i]).collect();
                    for signer in bz {
                        let spec = VoteSpec { kind: VKind::Notar, slot, block: b.tag, signer };
                        w.wire_votes.entry((VKind::Notar, slot, b.tag)).or_default().insert(signer);
                        let m = ConsensusMessage::Vote(make_vote(spec));
                        if !w.deliver(&mut out, &ep, &m, to).await {
                            return finish(out, w);
                        }
                    }
                }
                tip = (slot, t1);
                for _ in 0..*flush {
                    if !w.collect(&mut out, &ep).await {
                        return finish(out, w);
                    }
                    let msgs = std::mem::take(&mut w.inflight);
                    for m in &msgs {
                        for to in 0..n {
                            if !w.deliver(&mut out, &ep, m, to).await {
                                return finish(out, w);
                            }
                        }
                    }
                }
                if *twin_late {
                    // later every node also obtains the other version (repair path)
                    for to in 0..n {
                        let b = if split_mask >> to & 1 == 1 { &b2 } else { &b1 };
                        if self_live(&w, to) && w.announced[to].insert((b.slot, b.tag)) {
                            if let Call::Panicked(p) = w.nodes[to].as_mut().unwrap().block(bid(b.slot, b.tag), bid(b.parent.0, b.parent.1), false).await {
                                w.panic(&mut out, &p, to);
                                return finish(out, w);
                            }
                        }
                    }
                    out.label("twin-delivered-late");
                }
            }
            Act::SplitRound { got_block, order } => {
                // expand into elementary actions on the same world
                let mut steps: Vec<u8> = vec![0, 1, 2, 3, 4, 5];
                let mut k = *order as usize;
                let mut perm = Vec::new();
                for f in (1..=6usize).rev() {
                    perm.push(steps.remove(k % f));
                    k /= f;
                }
                // the crashed-leader timeout of the genesis window refers to the genesis slot and is
                // ignored, so slot timeouts only start at 760 + 390 + 400 ms there
                let wait = if cursor < 4 { 1150 + 400 * cursor as u16 + 50 } else { 800 };
                let mut sub: Vec<Act> = vec![Act::Honest { to_mask: *got_block, flush: 0 }, Act::Wait { ms: wait }];
                for st in perm {
                    sub.push(match st {
                        0 => Act::DeliverWhere { what: 2, dslot: 0, to_mask: u16::MAX },
                        1 => Act::DeliverWhere { what: 0, dslot: 0, to_mask: u16::MAX },
                        2 => Act::Honest { to_mask: u16::MAX, flush: 0 },
                        3 => Act::DeliverWhere { what: 5, dslot: 0, to_mask: u16::MAX },
                        4 => Act::DeliverWhere { what: 4, dslot: 0, to_mask: u16::MAX },
                        _ => Act::DeliverWhere { what: if *order % 2 == 0 { 3 } else { 1 }, dslot: 0, to_mask: u16::MAX },
                    });
                }
                sub.push(Act::Flush { rounds: 2, to_mask: u16::MAX });
                sub.push(Act::Next);
                pending.extend(sub.into_iter().rev());
                out.label("split-round");
                continue;
            }
            Act::DeliverWhere { what, dslot, to_mask } => {
                if !w.collect(&mut out, &ep).await {
                    return finish(out, w);
                }
                let slot = (cursor as i64 + *dslot as i64).max(1) as u64;
                let kinds = [VKind::Notar, VKind::NotarFallback, VKind::Skip, VKind::SkipFallback, VKind::Final];
                let msgs: Vec<ConsensusMessage> = w
                    .inflight
                    .iter()
                    .filter(|m| match m {
                        ConsensusMessage::Vote(v) => *what < 5 && v.slot().inner() == slot && classify_vote(v).kind == kinds[*what as usize],
                        ConsensusMessage::Cert(c) => *what == 5 && c.slot().inner() == slot,
                    })
                    .cloned()
                    .collect();
                for m in &msgs {
                    for to in mask_nodes(*to_mask, n) {
                        if !w.deliver(&mut out, &ep, m, to).await {
                            return finish(out, w);
                        }
                    }
                }
            }
            Act::Announce { block, to_mask } => {
                if w.blocks.is_empty() {
                    continue;
                }
                let b = w.blocks[pick_idx(*block, w.blocks.len())].clone();
                for to in mask_nodes(*to_mask, n) {
                    if !w.announce(&mut out, &b, to).await {
                        return finish(out, w);
                    }
                }
            }
            Act::Deliver { msg, to_mask } => {
                if !w.collect(&mut out, &ep).await {
                    return finish(out, w);
                }
                if w.inflight.is_empty() {
                    continue;
                }
                let i = pick_idx(*msg, w.inflight.len());
                let m = w.inflight[i].clone();
                for to in mask_nodes(*to_mask, n) {
                    if !w.deliver(&mut out, &ep, &m, to).await {
                        return finish(out, w);
                    }
                }
            }
            Act::Flush { rounds, to_mask } => {
                for _ in 0..*rounds {
                    if !w.collect(&mut out, &ep).await {
                        return finish(out, w);
                    }
                    let msgs = w.inflight.clone();
                    for m in &msgs {
                        for to in mask_nodes(*to_mask, n) {
                            if !w.deliver(&mut out, &ep, m, to).await {
                                return finish(out, w);
                            }
                        }
                    }
                }
            }
            Act::ByzVote { who, kind, dslot, tag, to_mask } => {
                let bz: Vec<usize> = (0..n).filter(|i| w.byz[*i]).collect();
                if bz.is_empty() {
                    continue;
                }
                let signer = bz[*who as usize % bz.len()];
                let slot = (cursor as i64 + *dslot as i64).max(1) as u64;
                // the block tag: one of the blocks of that slot, or an unknown one
                let in_slot: Vec<u64> = w.blocks.iter().filter(|b| b.slot == slot).map(|b| b.tag).collect();
                let t = if in_slot.is_empty() { slot * 10 + 9 } else { in_slot[*tag as usize % in_slot.len()] };
                let spec = VoteSpec { kind: *kind, slot, block: t, signer }.norm();
                let prev = w.wire_votes.iter().any(|((_, s, _), who)| *s == slot && who.contains(&signer));
                if prev {
                    w.equivocation = true;
                }
                w.wire_votes.entry((spec.kind, spec.slot, spec.block)).or_default().insert(signer);
                let m = ConsensusMessage::Vote(make_vote(spec));
                let bytes = wincode::serialize(&m).unwrap_or_default();
                if w.seen.insert(bytes) {
                    w.inflight.push(m.clone());
                }
                for to in mask_nodes(*to_mask, n) {
                    if !w.deliver(&mut out, &ep, &m, to).await {
                        return finish(out, w);
                    }
                }
            }
            Act::ByzCert { kind, dslot, tag, to_mask } => {
                let slot = (cursor as i64 + *dslot as i64).max(1) as u64;
                let in_slot: Vec<u64> = w.blocks.iter().filter(|b| b.slot == slot).map(|b| b.tag).collect();
                let t = if !kind.has_hash() {
                    0
                } else if in_slot.is_empty() {
                    continue;
                } else {
                    in_slot[*tag as usize % in_slot.len()]
                };
                let bz: BTreeSet<usize> = (0..n).filter(|i| w.byz[*i]).collect();
                let get = |k: VKind| -> BTreeSet<usize> { w.wire_votes.get(&(k, slot, if k.has_hash() { t } else { 0 })).cloned().unwrap_or_default() };
                // the adversary may add its own signatures of any kind
                let (mut primary, mut fallback): (BTreeSet<usize>, BTreeSet<usize>) = match kind {
                    CKind::Notar | CKind::FastFinal => (get(VKind::Notar), BTreeSet::new()),
                    CKind::NotarFallback => (get(VKind::Notar), get(VKind::NotarFallback)),
                    CKind::Skip => (get(VKind::Skip), get(VKind::SkipFallback)),
                    CKind::Final => (get(VKind::Final), BTreeSet::new()),
                };
                primary.extend(bz.iter().copied());
                fallback.retain(|v| !primary.contains(v));
                let stake: u128 = primary.iter().chain(fallback.iter()).map(|v| w.stakes[*v] as u128).sum();
                if stake * 5 < total * kind.threshold_fifths() {
                    continue;
                }
                let spec = CertSpec { kind: *kind, slot, block: t, primary: primary.into_iter().collect(), fallback: fallback.into_iter().collect() };
                let cert = make_cert(&spec, ep.validators());
                debug_assert_eq!(cert_kind(&cert), *kind);
                let m = ConsensusMessage::Cert(cert);
                out.label("adversary-built-certificate");
                for to in mask_nodes(*to_mask, n) {
                    if !w.deliver(&mut out, &ep, &m, to).await {
                        return finish(out, w);
                    }
                }
            }
        }
        if !w.collect(&mut out, &ep).await {
            break;
        }
        if !w.check(&mut out, step) {
            break;
        }
    }
    finish(out, w)
}

fn self_live(w: &World, i: usize) -> bool {
    !w.byz[i] && w.nodes[i].as_ref().is_some_and(|n| !n.crashed)
}

fn finish(mut out: Outcome, w: World) -> Outcome {
    for node in w.nodes.iter().flatten() {
        for (_, e) in &node.events {
            match e {
                PoolEvent::SafeToNotar(_) => out.label("event:safe-to-notar"),
                PoolEvent::SafeToSkip(_) => out.label("event:safe-to-skip"),
                _ => {}
            }
        }
    }
    if std::env::var_os("VERIF_DEBUG").is_some() {
        eprintln!("wire votes: {:?}", w.wire_votes);
        for (i, node) in w.nodes.iter().enumerate() {
            if let Some(node) = node {
                let ev: Vec<String> = node.events.iter().map(|(s, e)| match e {
                    PoolEvent::CertCreated(c) => format!("{s}:cert({:?},{})", cert_kind(c), c.slot().inner()),
                    PoolEvent::ParentReady { slot, .. } => format!("{s}:PR({})", slot.inner()),
                    PoolEvent::SafeToNotar(b) => format!("{s}:S2N({})", b.0.inner()),
                    PoolEvent::SafeToSkip(sl) => format!("{s}:S2S({})", sl.inner()),
                    PoolEvent::Standstill(..) => format!("{s}:standstill"),
                }).collect();
                eprintln!("node {i}: finalized {} events {ev:?}", node.pool.finalized_slot().inner());
            }
        }
    }
    for ((k, _, _), _) in &w.wire_votes {
        match k {
            VKind::NotarFallback => out.label("vote:notar-fallback"),
            VKind::SkipFallback => out.label("vote:skip-fallback"),
            VKind::Final => out.label("vote:final"),
            _ => {}
        }
    }
    for node in w.nodes.iter().flatten() {
        node.votor_task.abort();
    }
    out
}
