//! C09 — only authentic votes and sufficiently backed certificates are admitted.
//!
//! Validity is known by construction: every signature placed into a message is a real signature
//! of a known validator over a known payload (possibly the wrong one), the marked signer sets
//! are chosen independently of the contributing signatures, so the statement's iff-condition can
//! be evaluated exactly (BLS signatures are unique, so "is the right signature" is a byte
//! comparison for votes and a multiset comparison for aggregates).

use std::collections::BTreeSet;

use alpenglow::consensus::{Cert, ConsensusMessage, ValidatedCert, ValidatedVote, Vote};
use alpenglow::crypto::aggsig::{AggregateSignature, IndividualSignature};
use alpenglow::ValidatorIndex;
use proptest::prelude::*;
use serde::{Deserialize, Serialize};

use crate::engine::{Outcome, Property, Tier, catch, panic_msg, panic_site};
use crate::fixtures::epoch::{epoch, stakes_strategy};
use crate::fixtures::votes::{CKind, VKind, VoteSpec, make_vote};
use crate::fixtures::{block_hash, hex};

/// A payload some validator signed: (kind, slot, block tag).
#[derive(Clone, Copy, Debug, PartialEq, Eq, PartialOrd, Ord, Serialize, Deserialize)]
pub struct Payload {
    pub kind: VKind,
    pub slot: u64,
    pub block: u64,
}

impl Payload {
    fn norm(mut self) -> Self {
        if !self.kind.has_hash() {
            self.block = 0;
        }
        self
    }
}

#[derive(Clone, Debug, Serialize, Deserialize)]
pub enum VoteMut {
    None,
    /// the message names another signer index
    Signer(u64),
    /// the message carries another payload than the one signed
    Claims(Payload),
    /// the signature is the one of another validator over the claimed payload
    SigOf(u8),
    /// flip one byte of the signature encoding
    SigByte(u8, u8),
    /// the genuine signature plus a small-order curve point (on the curve, outside the subgroup)
    SigTorsion,
}

/// One half of a certificate: who is marked, and which signatures were actually aggregated.
#[derive(Clone, Debug, Serialize, Deserialize)]
pub struct Half {
    /// bit mask over validators marked as signers
    pub marked: u32,
    /// validators whose signature over the half's *correct* payload is aggregated
    pub signed_ok: u32,
    /// additional contributions: (validator, payload actually signed) — wrong kind / slot / block
    pub stray: Vec<(u8, Payload)>,
    /// add a small-order curve point to the aggregate (same pairing value, not in the subgroup)
    pub torsion: bool,
}

#[derive(Clone, Debug, Serialize, Deserialize)]
pub enum MaskLen {
    N,
    Plus(u8),
    Minus(u8),
}

#[derive(Clone, Debug, Serialize, Deserialize)]
pub enum Case {
    Vote { stakes: Vec<u64>, signer: u8, signed: Payload, mutation: VoteMut },
    Cert {
        stakes: Vec<u64>,
        kind: CKind,
        slot: u64,
        block: u64,
        primary: Option<Half>,
        fallback: Option<Half>,
        /// true: marked = signed_ok (a well-formed certificate over the chosen subset)
        honest: bool,
        mask_len: MaskLen,
        declared_stake: u64,
        swap_halves: bool,
    },
}

pub struct C09;

fn vote_wire(claims: Payload, sig: &[u8], signer: u64) -> Vec<u8> {
    let mut b = Vec::new();
    let tag: u32 = match claims.kind {
        VKind::Notar => 0,
        VKind::NotarFallback => 1,
        VKind::Skip => 2,
        VKind::SkipFallback => 3,
        VKind::Final => 4,
    };
    b.extend_from_slice(&tag.to_le_bytes());
    b.extend_from_slice(&claims.slot.to_le_bytes());
    if claims.kind.has_hash() {
        b.extend_from_slice(block_hash(claims.block).as_hash_bytes());
    }
    b.extend_from_slice(sig);
    b.extend_from_slice(&signer.to_le_bytes());
    b
}

trait HashBytes {
    fn as_hash_bytes(&self) -> &[u8];
}
impl HashBytes for alpenglow::crypto::merkle::BlockHash {
    fn as_hash_bytes(&self) -> &[u8] {
        use alpenglow::crypto::merkle::MerkleRoot;
        self.as_hash().as_ref()
    }
}

/// The (unique) signature bytes of `validator` over `p`.
fn sig_bytes(validator: usize, p: Payload) -> Vec<u8> {
    let v = make_vote(VoteSpec { kind: p.kind, slot: p.slot, block: p.block, signer: validator });
    let bytes = wincode::serialize(&v).expect("encode vote");
    let off = 4 + 8 + if p.kind.has_hash() { 32 } else { 0 };
    bytes[off..off + 96].to_vec()
}

fn payload_strategy() -> impl Strategy<Value = Payload> {
    (
        prop_oneof![Just(VKind::Notar), Just(VKind::NotarFallback), Just(VKind::Skip), Just(VKind::SkipFallback), Just(VKind::Final)],
        prop_oneof![Just(5u64), Just(6u64)],
        1u64..=2,
    )
        .prop_map(|(kind, slot, block)| Payload { kind, slot, block }.norm())
}

fn half_strategy() -> impl Strategy<Value = Half> {
    (
        (any::<u32>(), any::<u32>()).prop_map(|(a, b)| a | b),
        any::<u32>(),
        prop::collection::vec((any::<u8>(), payload_strategy()), 0..2),
        prop_oneof![3 => Just(0u8), 1 => Just(1), 1 => Just(2), 1 => Just(3)],
        prop::bool::weighted(0.12),
    )
        .prop_map(|(marked, noise, stray, mode, torsion)| {
            // mode 0: signed = marked; 1: one marked validator did not sign; 2: one unmarked validator signed; 3: independent
            let signed_ok = match mode {
                0 => marked,
                1 => marked & !(1 << (noise % 24)),
                2 => marked | (1 << (noise % 24)),
                _ => noise,
            };
            Half { marked, signed_ok, stray: if mode == 0 && noise % 4 != 0 { vec![] } else { stray }, torsion }
        })
}

impl Property for C09 {
    type Case = Case;
    fn id(&self) -> &'static str {
        "C09"
    }
    fn cases(&self, tier: Tier) -> u32 {
        tier.pick(8_000, 250_000)
    }
    fn rule(&self) -> String {
        "cases: epochs of 1..=24 validators with generated stakes (threshold-exact patterns). Votes: a real signature of a \
         validator over a payload, offered unchanged or with another signer index (in range, = n, huge), another claimed \
         kind / slot / block, another validator's signature, or a flipped signature byte. Certificates (all five types, built \
         at the wire level): per half an independently chosen marked set and set of aggregated signatures (marked validator \
         missing, unmarked validator included, signatures over the wrong kind / slot / block inside the aggregate, same \
         validator in both halves, one half absent, halves swapped), signer sets around the 60 % / 80 % thresholds, mask \
         length n, n+-k, arbitrary declared stake. Oracle: admitted iff every aggregated signature is the marked \
         validator's signature over exactly the certificate's payload, marked set = aggregated set, mask length = n and \
         distinct marked stake meets the threshold in exact arithmetic; the declared stake never matters; every rejection \
         is an error (decode or validation), never a panic. Non-trivial: a mutated message that still decodes."
            .into()
    }
    fn assumptions(&self) -> Vec<String> {
        vec!["BLS signature uniqueness / unforgeability: an aggregate verifies only for exactly the right multiset of signatures".into()]
    }
    fn strategy(&self, _tier: Tier) -> BoxedStrategy<Case> {
        let vote = (stakes_strategy(1, 24), any::<u8>(), payload_strategy(), prop_oneof![
            2 => Just(VoteMut::None),
            2 => prop_oneof![0u64..30, Just(u64::MAX), 24u64..26].prop_map(VoteMut::Signer),
            3 => payload_strategy().prop_map(VoteMut::Claims),
            2 => any::<u8>().prop_map(VoteMut::SigOf),
            1 => (0u8..96, 1u8..=255).prop_map(|(p, x)| VoteMut::SigByte(p, x)),
            1 => Just(VoteMut::SigTorsion),
        ])
            .prop_map(|(stakes, signer, signed, mutation)| Case::Vote { stakes, signer, signed, mutation });
        let cert = (
            stakes_strategy(1, 24),
            prop_oneof![Just(CKind::Notar), Just(CKind::NotarFallback), Just(CKind::Skip), Just(CKind::FastFinal), Just(CKind::Final)],
            prop_oneof![Just(5u64), Just(6u64)],
            1u64..=2,
            prop::option::weighted(0.9, half_strategy()),
            prop::option::weighted(0.7, half_strategy()),
            prop::bool::weighted(0.4),
            prop_oneof![8 => Just(MaskLen::N), 1 => (1u8..70).prop_map(MaskLen::Plus), 1 => (1u8..5).prop_map(MaskLen::Minus)],
            any::<u64>(),
            prop::bool::weighted(0.1),
        )
            .prop_map(|(stakes, kind, slot, block, primary, fallback, honest, mask_len, declared_stake, swap_halves)| Case::Cert {
                stakes,
                kind,
                slot,
                block,
                primary,
                fallback,
                honest,
                mask_len,
                declared_stake,
                swap_halves,
            });
        prop_oneof![1 => vote, 3 => cert].boxed()
    }
    fn run(&self, case: &Case) -> Outcome {
        match case {
            Case::Vote { stakes, signer, signed, mutation } => run_vote(stakes, *signer, *signed, mutation),
            Case::Cert { .. } => run_cert(case),
        }
    }
}

fn run_vote(stakes: &[u64], signer: u8, signed: Payload, mutation: &VoteMut) -> Outcome {
    let mut out = Outcome::default();
    let n = stakes.len();
    let ep = epoch(stakes);
    let signer = signer as usize % n;
    let signed = signed.norm();
    let mut claims = signed;
    let mut claimed_signer = signer as u64;
    let mut sig = sig_bytes(signer, signed);
    let class = match mutation {
        VoteMut::None => "vote:unchanged",
        VoteMut::Signer(s) => {
            claimed_signer = *s;
            "vote:signer-index"
        }
        VoteMut::Claims(p) => {
            claims = p.norm();
            "vote:claimed-payload"
        }
        VoteMut::SigOf(v) => {
            sig = sig_bytes(*v as usize % n, claims);
            "vote:other-validators-signature"
        }
        VoteMut::SigByte(p, x) => {
            sig[*p as usize] ^= *x;
            "vote:signature-byte"
        }
        VoteMut::SigTorsion => {
            if let Some(t) = crate::fixtures::torsion::add_torsion(&sig) {
                sig = t;
            }
            "vote:signature-plus-small-order-point"
        }
    };
    out.label(class);
    let bytes = vote_wire(claims, &sig, claimed_signer);
    let truth = claimed_signer < n as u64 && sig == sig_bytes(claimed_signer as usize % 64, claims);
    let decoded = catch(|| wincode::deserialize::<Vote>(&bytes));
    let vote = match decoded {
        Err(p) => {
            out.violate(format!("C09/decode-panic/{}/{}", panic_site(&p), panic_msg(&p)), p);
            return out;
        }
        Ok(Err(_)) => {
            out.check(!truth, "C09/vote/authentic-vote-not-decodable", || format!("{class}"));
            out.label("vote:rejected-at-decode");
            return out;
        }
        Ok(Ok(v)) => v,
    };
    out.nontrivial = !matches!(mutation, VoteMut::None);
    match catch(|| ValidatedVote::try_new(vote, &ep)) {
        Err(p) => out.violate(format!("C09/vote/panic/{}/{}", panic_site(&p), panic_msg(&p)), format!("{class}: {p}")),
        Ok(r) => {
            out.checks += 1;
            if r.is_ok() && !truth {
                out.violate(
                    format!("C09/vote/admitted-not-authentic/{}", class.trim_start_matches("vote:")),
                    format!("n={n} signed {signed:?} by {signer}; message claims {claims:?} signer {claimed_signer}; sig {}…", hex(&sig[..6])),
                );
            } else if r.is_err() && truth {
                out.violate("C09/vote/authentic-vote-rejected", format!("n={n} {claims:?} signer {claimed_signer}: {:?}", r.err()));
            }
        }
    }
    out
}

fn bits(mask: u32, n: usize) -> BTreeSet<usize> {
    (0..n.min(32)).filter(|i| mask >> i & 1 == 1).collect()
}

/// Aggregates the given signature encodings; returns the 96-byte encoding of the aggregate.
fn aggregate(sigs: &[Vec<u8>]) -> Option<Vec<u8>> {
    if sigs.is_empty() {
        return None;
    }
    let parsed: Vec<IndividualSignature> = sigs.iter().map(|b| wincode::deserialize::<IndividualSignature>(b).expect("real signature decodes")).collect();
    let agg = AggregateSignature::new(parsed.iter(), (0..parsed.len() as u64).map(ValidatorIndex::new), parsed.len());
    let bytes = wincode::serialize(&agg).expect("encode aggregate");
    Some(bytes[..96].to_vec())
}

fn run_cert(case: &Case) -> Outcome {
    let Case::Cert { stakes, kind, slot, block, primary, fallback, honest, mask_len, declared_stake, swap_halves } = case else { unreachable!() };
    let mut out = Outcome::default();
    let n = stakes.len();
    let ep = epoch(stakes);
    let total: u128 = stakes.iter().map(|s| *s as u128).sum();
    let mixed = matches!(kind, CKind::NotarFallback | CKind::Skip);
    out.label(format!("cert:{kind:?}"));
    let (pk, fk) = match kind {
        CKind::Notar | CKind::FastFinal => (VKind::Notar, VKind::Notar),
        CKind::NotarFallback => (VKind::Notar, VKind::NotarFallback),
        CKind::Skip => (VKind::Skip, VKind::SkipFallback),
        CKind::Final => (VKind::Final, VKind::Final),
    };
    let payload_of = |vk: VKind| Payload { kind: vk, slot: *slot, block: *block }.norm();
    let mask_bits = match mask_len {
        MaskLen::N => n,
        MaskLen::Plus(k) => n + *k as usize,
        MaskLen::Minus(k) => n.saturating_sub(*k as usize),
    };
    // per half: marked set, contributions
    struct Built {
        marked: BTreeSet<usize>,
        exact: bool,
        bytes: Vec<u8>,
    }
    let mut build_half = |h: &Half, vk: VKind, out: &mut Outcome| -> Option<Built> {
        let marked = bits(h.marked, mask_bits.max(n));
        let marked: BTreeSet<usize> = marked.into_iter().filter(|i| *i < mask_bits).collect();
        let signed_ok: BTreeSet<usize> = if *honest { marked.iter().copied().filter(|i| *i < n).collect() } else { bits(h.signed_ok, n) };
        let mut sigs: Vec<Vec<u8>> = signed_ok.iter().map(|v| sig_bytes(*v, payload_of(vk))).collect();
        let mut stray_ok = true;
        if !*honest {
            for (v, p) in &h.stray {
                let v = *v as usize % n;
                let p = p.norm();
                if p == payload_of(vk) {
                    continue;
                }
                sigs.push(sig_bytes(v, p));
                stray_ok = false;
                out.label("cert:foreign-signature-inside-aggregate");
            }
        }
        let mut exact = stray_ok && signed_ok == marked && marked.iter().all(|i| *i < n);
        if !exact && stray_ok {
            out.label(if signed_ok.is_superset(&marked) { "cert:unmarked-signer-aggregated" } else { "cert:marked-validator-did-not-sign" });
        }
        let mut agg = aggregate(&sigs)?;
        if h.torsion
            && let Some(t) = crate::fixtures::torsion::add_torsion(&agg)
        {
            agg = t;
            exact = false;
            out.label("cert:aggregate-plus-small-order-point");
        }
        let mut b = agg;
        b.extend_from_slice(&(mask_bits as u64).to_le_bytes());
        let words = mask_bits.div_ceil(64);
        b.extend_from_slice(&(words as u64).to_le_bytes());
        let mut w = vec![0u64; words];
        for i in &marked {
            w[i / 64] |= 1 << (i % 64);
        }
        for x in w {
            b.extend_from_slice(&x.to_le_bytes());
        }
        Some(Built { marked, exact, bytes: b })
    };
    let (mut first, mut second) = (primary.as_ref(), fallback.as_ref());
    if !mixed {
        second = None;
        if first.is_none() {
            first = fallback.as_ref();
        }
    }
    let mut h1 = first.and_then(|h| build_half(h, pk, &mut out));
    let mut h2 = second.and_then(|h| build_half(h, fk, &mut out));
    if *swap_halves && mixed {
        std::mem::swap(&mut h1, &mut h2);
        out.label("cert:halves-swapped");
    }
    if !mixed && h1.is_none() {
        return out; // a single-aggregate certificate cannot be expressed without an aggregate
    }
    // wire
    let mut b = Vec::new();
    let tag: u32 = match kind {
        CKind::Notar => 0,
        CKind::NotarFallback => 1,
        CKind::Skip => 2,
        CKind::FastFinal => 3,
        CKind::Final => 4,
    };
    b.extend_from_slice(&tag.to_le_bytes());
    b.extend_from_slice(&slot.to_le_bytes());
    if kind.has_hash() {
        b.extend_from_slice(block_hash(*block).as_hash_bytes());
    }
    if mixed {
        for h in [&h1, &h2] {
            match h {
                None => b.push(0),
                Some(x) => {
                    b.push(1);
                    b.extend_from_slice(&x.bytes);
                }
            }
        }
    } else {
        b.extend_from_slice(&h1.as_ref().unwrap().bytes);
    }
    b.extend_from_slice(&declared_stake.to_le_bytes());

    // truth by the statement
    let halves_exact = if *swap_halves && mixed {
        // swapped halves carry signatures over the other half's payload: only fine when absent
        h1.is_none() && h2.is_none()
    } else {
        h1.as_ref().is_none_or(|h| h.exact) && h2.as_ref().is_none_or(|h| h.exact)
    };
    let mut marked_all: BTreeSet<usize> = BTreeSet::new();
    for h in [&h1, &h2].into_iter().flatten() {
        marked_all.extend(h.marked.iter().copied());
    }
    if h1.as_ref().zip(h2.as_ref()).is_some_and(|(a, b)| a.marked.intersection(&b.marked).next().is_some()) {
        out.label("cert:validator-in-both-halves");
    }
    let stake: u128 = marked_all.iter().filter(|i| **i < n).map(|i| stakes[*i] as u128).sum();
    let fifths = kind.threshold_fifths();
    let meets = stake * 5 >= total * fifths;
    let any_half = h1.is_some() || h2.is_some();
    let truth = any_half && mask_bits == n && halves_exact && meets;
    if stake * 5 == total * fifths {
        out.label("cert:exactly-on-threshold");
    }
    if !meets && halves_exact && mask_bits == n {
        out.label("cert:well-formed-below-threshold");
    }
    if mask_bits != n {
        out.label("cert:mask-length-differs");
    }

    let decoded = catch(|| wincode::deserialize::<Cert>(&b));
    let cert = match decoded {
        Err(p) => {
            out.violate(format!("C09/decode-panic/{}/{}", panic_site(&p), panic_msg(&p)), p);
            return out;
        }
        Ok(Err(_)) => {
            out.check(!truth, "C09/cert/valid-certificate-not-decodable", || format!("{kind:?} n={n}"));
            out.label("cert:rejected-at-decode");
            return out;
        }
        Ok(Ok(c)) => c,
    };
    out.nontrivial = true;
    let verdict = match catch(|| ValidatedCert::try_new(cert.clone(), &ep)) {
        Err(p) => {
            out.violate(format!("C09/cert/panic/{}/{}", panic_site(&p), panic_msg(&p)), format!("{kind:?} n={n} mask bits {mask_bits}: {p}"));
            return out;
        }
        Ok(r) => r,
    };
    out.checks += 1;
    let describe = || {
        format!(
            "{kind:?} slot {slot} n={n} stakes {stakes:?}: marked {:?} / {:?} (exact aggregate: {} / {}), mask bits {mask_bits}, marked stake {stake} of {total}, declared {declared_stake}",
            h1.as_ref().map(|h| &h.marked),
            h2.as_ref().map(|h| &h.marked),
            h1.as_ref().is_none_or(|h| h.exact),
            h2.as_ref().is_none_or(|h| h.exact),
        )
    };
    if verdict.is_ok() && !truth {
        let class = if !meets { "insufficient-stake" } else if mask_bits != n { "mask-length" } else { "aggregate-not-authentic" };
        out.violate(format!("C09/cert/admitted/{class}"), describe());
    } else if verdict.is_err() && truth {
        out.violate("C09/cert/valid-certificate-rejected", format!("{:?}; {}", verdict.as_ref().err(), describe()));
    }
    // the declared stake must not influence the verdict
    let mut b2 = b.clone();
    let l = b2.len();
    b2[l - 8..].copy_from_slice(&(declared_stake ^ 0xffff_ffff).to_le_bytes());
    if let Ok(Ok(c2)) = catch(|| wincode::deserialize::<Cert>(&b2))
        && let Ok(v2) = catch(|| ValidatedCert::try_new(c2, &ep))
    {
        out.check(v2.is_ok() == verdict.is_ok(), "C09/cert/declared-stake-influences-verdict", || describe());
    }
    // the same certificate inside a consensus message decodes to the same verdict
    let mut wrapped = 1u32.to_le_bytes().to_vec();
    wrapped.extend_from_slice(&b);
    if let Ok(ConsensusMessage::Cert(c3)) = alpenglow::network::deserialize::<ConsensusMessage>(&wrapped) {
        out.check(c3 == cert, "C09/cert/decoders-disagree", || describe());
    }
    out
}
