//! C14 — repair stores only data matching the requested hash and cannot be derailed.
//!
//! Real `Repair::repair_loop` and real `RepairRequestHandler::run` over harness networks on a
//! paused single-thread runtime; peers are played by the harness following a generated script.

use std::collections::BTreeMap;
use std::net::SocketAddr;
use std::sync::{Arc, Mutex};

use alpenglow::consensus::{Blockstore, BlockstoreEvent, Pool, ValidatedCert, ValidatedVote};
use alpenglow::crypto::merkle::{BlockHash, DoubleMerkleTree};
use alpenglow::network::Network;
use alpenglow::repair::{Repair, RepairRequest, RepairRequestHandler, RepairRequestType, RepairResponse};
use alpenglow::shredder::ValidatedShred;
use alpenglow::types::Slot;
use alpenglow::BlockId;
use either::Either;
use proptest::prelude::*;
use serde::{Deserialize, Serialize};
use tokio::sync::mpsc::{UnboundedReceiver, UnboundedSender, unbounded_channel};
use tokio::sync::{RwLock, oneshot};

use crate::engine::{Outcome, Property, Tier, catch, panic_msg, panic_site, take_panics};
use crate::fixtures::blocks::{BlockSpec, BuiltBlock, SliceSpec, build_block, build_slice};
use crate::fixtures::epoch::validator_epoch;
use crate::fixtures::keys;
use crate::fixtures::net::with_runtime;
use crate::fixtures::pool_driver::bid;
use crate::fixtures::shreds::{ShredParts, shred_index, slice_index};

/// A network endpoint backed by channels: sends are captured, receives are fed by the harness.
pub struct ChanNet<S, R> {
    pub out: UnboundedSender<S>,
    pub inbox: tokio::sync::Mutex<UnboundedReceiver<R>>,
}

impl<S: Clone + Send + Sync, R: Send + Sync> Network for ChanNet<S, R> {
    type Send = S;
    type Recv = R;
    async fn send(&self, m: &S, _addr: SocketAddr) -> std::io::Result<()> {
        let _ = self.out.send(m.clone());
        Ok(())
    }
    async fn send_to_many(&self, m: &S, addrs: impl IntoIterator<Item = SocketAddr> + Send) -> std::io::Result<()> {
        // the requester addresses up to three random peers; the harness plays "the peers" as one
        // scripted respondent, so one captured copy per logical request is enough
        let _ = addrs.into_iter().count();
        let _ = self.out.send(m.clone());
        Ok(())
    }
    async fn receive(&self) -> std::io::Result<R> {
        match self.inbox.lock().await.recv().await {
            Some(m) => Ok(m),
            None => std::future::pending().await,
        }
    }
}

fn chan_net<S, R>() -> (ChanNet<S, R>, UnboundedReceiver<S>, UnboundedSender<R>) {
    let (otx, orx) = unbounded_channel();
    let (itx, irx) = unbounded_channel();
    (ChanNet { out: otx, inbox: tokio::sync::Mutex::new(irx) }, orx, itx)
}

/// Pool stand-in that records block registrations.
#[derive(Default)]
pub struct RecPool {
    pub blocks: Arc<Mutex<Vec<(BlockId, BlockId)>>>,
}

#[async_trait::async_trait]
impl Pool for RecPool {
    async fn add_cert(&mut self, _c: ValidatedCert) -> Result<(), alpenglow::consensus::AddCertError> {
        Ok(())
    }
    async fn add_vote(&mut self, _v: ValidatedVote) -> Result<(), alpenglow::consensus::AddVoteError> {
        Ok(())
    }
    async fn add_block(&mut self, block_id: BlockId, parent_id: BlockId) {
        self.blocks.lock().unwrap().push((block_id, parent_id));
    }
    async fn recover_from_standstill(&self) {}
    fn finalized_slot(&self) -> Slot {
        Slot::genesis()
    }
    fn parents_ready(&self, _slot: Slot) -> &[BlockId] {
        &[]
    }
    fn wait_for_parent_ready(&mut self, _slot: Slot) -> Either<BlockId, oneshot::Receiver<BlockId>> {
        let (_tx, rx) = oneshot::channel();
        Either::Right(rx)
    }
}

#[derive(Clone, Copy, Debug, PartialEq, Eq, Serialize, Deserialize)]
pub enum Reaction {
    Correct,
    Nack,
    Silence,
    Duplicate,
    /// correct response with one proof hash / one payload byte altered
    CorruptProof,
    /// response of another variant for this request
    WrongVariant,
    /// correct variant, data for another index (slice or shred)
    WrongIndex,
    /// slice root / shred belonging to another block of the same leader
    WrongRoot,
    /// replay of an earlier, already processed response
    Replay,
    /// response to a request that was never made
    Unsolicited,
    /// shreds of a version of this slice the (Byzantine) leader also signed: other last flag
    LeaderSignedOtherFlag,
    /// ... other payload
    LeaderSignedOtherData,
    /// a last-slice-root request is answered with an *earlier* slice, its genuine root and its
    /// genuine membership proof (everything true except that the slice is not the last one)
    EarlierSliceAsLast,
}

#[derive(Clone, Debug, Serialize, Deserialize)]
pub struct Case {
    pub block: BlockSpec,
    /// reactions applied to the requests in order of arrival (cycled); each request gets at most
    /// `max_hostile` non-correct reactions before a correct one (fairness)
    pub script: Vec<Reaction>,
    pub max_hostile: u8,
    /// responder-only probes: (kind, slice, shred, known block?, sender in range?)
    pub probes: Vec<(u8, u16, u8, bool, bool)>,
    /// how the responder came to hold the block: 0 = dissemination only; 1 = a few shreds were
    /// filed through repair first (incomplete), then dissemination completed the block; 2 = repair
    /// only; 3 = dissemination delivered part of every slice, repair the rest
    #[serde(default)]
    pub responder_history: u8,
    /// the requester already holds this many disseminated shreds (per slice) of *another* block
    /// the same leader signed for the slot when it is asked to repair the block
    #[serde(default)]
    pub requester_conflicting_shreds: u8,
}

pub struct C14;

impl Property for C14 {
    type Case = Case;
    fn id(&self) -> &'static str {
        "C14"
    }
    fn cases(&self, tier: Tier) -> u32 {
        tier.pick(1_500, 50_000)
    }
    fn rule(&self) -> String {
        "cases: a block of 1..=3 slices held by a responder node (real RepairRequestHandler over a real blockstore); a \
         requester node (real Repair loop, empty blockstore) asked to repair it; every request the requester emits is \
         answered by a scripted peer with up to max_hostile (0..=3) reactions from {NACK, silence until the retry timer, \
         duplicate, corrupted proof / payload, wrong variant, wrong index, root / shred of another block, replay, unsolicited \
         response, shreds of another version of the slice signed by the same (Byzantine) leader with the other last flag or \
         other data} before a correct answer produced by the real responder; plus direct probes of the responder with all \
         request kinds, out-of-range slice indices, unknown blocks and unknown senders. Oracle: integrity — whenever the \
         requester holds or announces a block under (slot, H) its hash and the double-Merkle root of its slice roots equal \
         H; no panic, both tasks alive; progress — the block is repaired by the end of the script plus the retry budget; \
         responder — every answer for a held block verifies against H (last-leaf proof at the true last index, slice-root \
         proofs, shreds valid from scratch at the requested indices), everything else is a NACK, unknown senders get no \
         answer. Non-trivial: at least one hostile reaction preceded the correct answer of some request."
            .into()
    }
    fn assumptions(&self) -> Vec<String> {
        vec![
            "fairness: after at most max_hostile bad reactions to a request a correct answer follows (the property's premise 'some peer keeps answering correctly')".into(),
            "paused clock (the node's timers read it through the verif-hooks feature): an unanswered request is re-sent after 500 virtual ms; the scripted peer answers every request it has received before time advances".into(),
        ]
    }
    fn strategy(&self, _tier: Tier) -> BoxedStrategy<Case> {
        let slice = prop::collection::vec(0u16..200, 0..3).prop_map(|txs| SliceSpec { txs, switch_parent: None });
        let block = (4u64..60, 0u8..4, prop::collection::vec(slice, 1..=3), any::<u64>()).prop_map(|(slot, leader, slices, seed)| BlockSpec {
            slot,
            leader,
            parent: (slot - 1, 50),
            slices,
            seed,
        });
        let reaction = prop_oneof![
            6 => Just(Reaction::Correct),
            2 => Just(Reaction::Nack),
            1 => Just(Reaction::Silence),
            1 => Just(Reaction::Duplicate),
            2 => Just(Reaction::CorruptProof),
            2 => Just(Reaction::WrongVariant),
            2 => Just(Reaction::WrongIndex),
            2 => Just(Reaction::WrongRoot),
            1 => Just(Reaction::Replay),
            1 => Just(Reaction::Unsolicited),
            2 => Just(Reaction::LeaderSignedOtherFlag),
            2 => Just(Reaction::LeaderSignedOtherData),
            2 => Just(Reaction::EarlierSliceAsLast),
        ];
        (block, prop::collection::vec(reaction, 1..40), 0u8..=3, prop::collection::vec((0u8..3, prop_oneof![4 => 0u16..4, 1 => 0u16..1024], 0u8..64, prop::bool::weighted(0.8), prop::bool::weighted(0.85)), 0..8), prop_oneof![3 => Just(0u8), 2 => Just(1u8), 1 => Just(2u8), 1 => Just(3u8)], prop_oneof![3 => Just(0u8), 1 => 1u8..=31])
            .prop_map(|(block, script, max_hostile, probes, responder_history, requester_conflicting_shreds)| Case { block, script, max_hostile, probes, responder_history, requester_conflicting_shreds })
            .boxed()
    }
    fn run(&self, case: &Case) -> Outcome {
        let mut out = Outcome::default();
        let r = catch(|| with_runtime(true, case.block.seed, run(case)));
        match r {
            Ok(o) => out = o,
            Err(p) => out.violate(format!("C14/panic/{}/{}", panic_site(&p), panic_msg(&p)), p),
        }
        out
    }
}

/// Wire view of a request: (sender, request type).
fn parse_request(req: &RepairRequest) -> (u64, RepairRequestType) {
    let b = wincode::serialize(req).expect("encode request");
    let sender = u64::from_le_bytes(b[..8].try_into().unwrap());
    let t = wincode::deserialize::<RepairRequestType>(&b[8..]).expect("request type decodes");
    (sender, t)
}

fn make_request(sender: u64, t: &RepairRequestType) -> RepairRequest {
    let mut b = sender.to_le_bytes().to_vec();
    b.extend(wincode::serialize(t).expect("encode request type"));
    wincode::deserialize::<RepairRequest>(&b).expect("request decodes")
}

fn key_of(t: &RepairRequestType) -> Vec<u8> {
    wincode::serialize(t).expect("encode")
}

async fn run(case: &Case) -> Outcome {
    let mut out = Outcome::default();
    let built: BuiltBlock = build_block(&case.block);
    let k = built.slices.len();
    let slot = Slot::new(case.block.slot);
    let n = 4usize;
    let stakes = vec![1u64; n];
    let leader = (case.block.slot / 4 % n as u64) as usize;
    // the epoch's leader key must be the key the block was signed with
    let mut spec = case.block.clone();
    spec.leader = leader as u8;
    let built = if spec.leader != case.block.leader { build_block(&spec) } else { built };
    let h: BlockHash = built.hash.clone();
    let id: BlockId = (slot, h.clone());
    let leader_pk = keys().sig[leader].to_pk();
    // another block of the same leader and slot (for wrong-root reactions), and Byzantine versions
    let mut other_spec = spec.clone();
    other_spec.seed ^= 0x55;
    other_spec.slices.push(SliceSpec { txs: vec![7], switch_parent: None });
    let other = build_block(&other_spec);

    // --- responder node (validator 1) holds the block
    let (resp_events_tx, _resp_events) = tokio::sync::mpsc::channel(4096);
    let mut resp_store = alpenglow::consensus::BlockstoreImpl::new(resp_events_tx);
    out.label(format!("responder-history={}", case.responder_history % 4));
    match case.responder_history % 4 {
        0 => {
            for bs in &built.slices {
                for s in &bs.shreds {
                    let _ = resp_store.add_shred_from_dissemination(s.clone()).await;
                }
            }
        }
        1 => {
            for (i, bs) in built.slices.iter().enumerate() {
                for s in bs.shreds.iter().take(1 + i) {
                    let _ = resp_store.add_shred_from_repair(h.clone(), s.clone()).await;
                }
            }
            for bs in &built.slices {
                for s in &bs.shreds {
                    let _ = resp_store.add_shred_from_dissemination(s.clone()).await;
                }
            }
        }
        2 => {
            for bs in &built.slices {
                for s in &bs.shreds {
                    let _ = resp_store.add_shred_from_repair(h.clone(), s.clone()).await;
                }
            }
        }
        _ => {
            for bs in &built.slices {
                for s in bs.shreds.iter().take(20) {
                    let _ = resp_store.add_shred_from_dissemination(s.clone()).await;
                }
            }
            for bs in &built.slices {
                for s in bs.shreds.iter().skip(20) {
                    let _ = resp_store.add_shred_from_repair(h.clone(), s.clone()).await;
                }
            }
        }
    }
    if resp_store.get_block(&id).is_none() {
        if case.responder_history % 4 == 3 {
            // split between the two paths: neither path alone delivered a decodable slice, the
            // statement does not say that such a node holds the block
            out.label("responder-does-not-hold-block");
            return out;
        }
        // every shred of every slice arrived through one path: the node holds the block
        out.violate(
            "C14/responder/complete-block-not-served",
            format!("responder history {}: all 64 shreds of each of the {k} slices were stored, get_block((slot {}, H)) finds nothing", case.responder_history % 4, case.block.slot),
        );
        return out;
    }
    let resp_store: alpenglow::consensus::SharedBlockstore = Arc::new(RwLock::new(resp_store));
    let (resp_net, mut resp_out, resp_in) = chan_net::<RepairResponse, RepairRequest>();
    let handler = RepairRequestHandler::new(validator_epoch(&stakes, 1), resp_store.clone(), resp_net);
    let resp_task = tokio::spawn(async move { handler.run().await });

    // --- requester node (validator 2)
    let (req_events_tx, mut req_events) = tokio::sync::mpsc::channel(4096);
    let mut req_store_inner = alpenglow::consensus::BlockstoreImpl::new(req_events_tx);
    if case.requester_conflicting_shreds > 0 {
        // dissemination delivered part of the leader's *other* block for this slot
        out.label("requester-holds-shreds-of-another-block");
        for bs in &other.slices {
            for s in bs.shreds.iter().take((case.requester_conflicting_shreds as usize).min(31)) {
                let _ = req_store_inner.add_shred_from_dissemination(s.clone()).await;
            }
        }
    }
    let req_store: alpenglow::consensus::SharedBlockstore = Arc::new(RwLock::new(req_store_inner));
    let rec_pool = RecPool::default();
    let registered = rec_pool.blocks.clone();
    let pool: alpenglow::consensus::SharedPool = Arc::new(RwLock::new(rec_pool));
    let (req_net, mut req_out, req_in) = chan_net::<RepairRequest, RepairResponse>();
    let mut repair = Repair::new(req_store.clone(), pool, req_net, validator_epoch(&stakes, 2));
    let (repair_tx, repair_rx) = tokio::sync::mpsc::channel(16);
    let repair_task = tokio::spawn(async move { repair.repair_loop(repair_rx).await });
    repair_tx.send(id.clone()).await.expect("repair loop alive");

    // the real responder's answer to a request (None = no answer)
    async fn ask(resp_in: &UnboundedSender<RepairRequest>, resp_out: &mut UnboundedReceiver<RepairResponse>, req: RepairRequest) -> Option<RepairResponse> {
        let _ = resp_in.send(req);
        for _ in 0..50 {
            tokio::task::yield_now().await;
            if let Ok(r) = resp_out.try_recv() {
                return Some(r);
            }
        }
        None
    }

    let mut hostile_count: BTreeMap<Vec<u8>, u8> = BTreeMap::new();
    let mut history: Vec<RepairResponse> = Vec::new();
    let mut script_i = 0usize;
    let mut idle_rounds = 0;
    let mut steps = 0;
    let mut hostile_before_correct = false;
    loop {
        steps += 1;
        if steps > 6000 {
            break;
        }
        // integrity at every step
        {
            let st = req_store.read().await;
            if let Some(b) = st.get_block(&id) {
                let (bh, ..) = b.verif_parts();
                if bh != &h {
                    out.violate("C14/block-stored-under-wrong-hash", format!("requested {:?}, stored block hashes to another value", case.block.slot));
                    break;
                }
            }
        }
        while let Ok(e) = req_events.try_recv() {
            // (a block completed by dissemination - the leader's other block - is not repair's doing)
            if let BlockstoreEvent::Block { block_info, .. } = &e
                && block_info.verif_hash() != &h
                && block_info.verif_hash() != &other.hash
            {
                out.violate("C14/block-announced-with-wrong-hash", format!("{e:?}"));
            }
            if matches!(e, BlockstoreEvent::InvalidBlock(_)) {
                out.label("requester-flagged-leader");
            }
        }
        if repair_task.is_finished() {
            let p = take_panics().join(" | ");
            out.violate(format!("C14/repair-task-died/{}/{}", panic_site(&p), panic_msg(&p)), format!("repair loop ended: {p}"));
            break;
        }
        if out.failed() {
            break;
        }
        let done = req_store.read().await.get_block(&id).is_some();
        for _ in 0..4 {
            tokio::task::yield_now().await;
        }
        let Ok(req) = req_out.try_recv() else {
            if done {
                break;
            }
            // every outstanding request expires after 2 * DELTA = 500 virtual ms (the node's timers
            // read tokio's paused clock through the verif-hooks feature) and is then re-sent; a
            // few consecutive idle rounds without any new request mean the repair has given up
            idle_rounds += 1;
            if idle_rounds > 8 {
                break;
            }
            // nothing pending: let the retry timer run
            tokio::time::sleep(std::time::Duration::from_millis(600)).await;
            continue;
        };
        idle_rounds = 0;
        let (sender, rtype) = parse_request(&req);
        let key = key_of(&rtype);
        let reaction = {
            let r = case.script[script_i % case.script.len()];
            script_i += 1;
            let hc = hostile_count.entry(key.clone()).or_default();
            if r != Reaction::Correct && *hc >= case.max_hostile {
                Reaction::Correct
            } else {
                if r != Reaction::Correct {
                    *hc += 1;
                }
                r
            }
        };
        out.label(format!("reaction={reaction:?}"));
        if reaction == Reaction::Correct && hostile_count.get(&key).copied().unwrap_or(0) > 0 {
            hostile_before_correct = true;
        }
        let correct = ask(&resp_in, &mut resp_out, make_request(sender, &rtype)).await;
        let Some(correct) = correct else {
            out.violate("C14/responder/no-answer-for-held-block", format!("{rtype:?}"));
            break;
        };
        let deliver = |r: RepairResponse| {
            let _ = req_in.send(r);
        };
        match reaction {
            Reaction::Correct => {
                history.push(correct.clone());
                deliver(correct);
            }
            Reaction::Duplicate => {
                history.push(correct.clone());
                deliver(correct.clone());
                deliver(correct);
            }
            Reaction::Nack => deliver(RepairResponse::Nack(rtype.clone())),
            // no answer: the request is retried when its timer fires, which happens while the
            // harness idles (queue empty) below
            Reaction::Silence => {}
            Reaction::Replay => {
                if let Some(old) = history.first().cloned() {
                    deliver(old);
                }
                // the request itself stays unanswered until its retry
            }
            Reaction::Unsolicited => {
                let fake = RepairRequestType::SliceRoot(bid(case.block.slot + 1, 999), slice_index(0));
                deliver(RepairResponse::Nack(fake));
                deliver(RepairResponse::SliceRoot(RepairRequestType::SliceRoot(id.clone(), slice_index(777)), built.slices[0].root.clone(), vec![].into()));
            }
            Reaction::CorruptProof => {
                let bad = match correct {
                    RepairResponse::LastSliceRoot(t, i, root, proof) => {
                        let mut p: Vec<alpenglow::crypto::Hash> = proof.into();
                        if p.is_empty() {
                            RepairResponse::LastSliceRoot(t, i, other.slices[0].root.clone(), p.into())
                        } else {
                            p[0] = alpenglow::crypto::hash(b"bad");
                            RepairResponse::LastSliceRoot(t, i, root, p.into())
                        }
                    }
                    RepairResponse::SliceRoot(t, root, proof) => {
                        let mut p: Vec<alpenglow::crypto::Hash> = proof.into();
                        if p.is_empty() {
                            RepairResponse::SliceRoot(t, other.slices[0].root.clone(), p.into())
                        } else {
                            p[0] = alpenglow::crypto::hash(b"bad");
                            RepairResponse::SliceRoot(t, root, p.into())
                        }
                    }
                    RepairResponse::Shred(t, shred) => {
                        let mut parts = ShredParts::of(&shred);
                        if parts.data.is_empty() {
                            parts.proof[0][0] ^= 1;
                        } else {
                            parts.data[0] ^= 1;
                        }
                        match parts.to_shred() {
                            Ok(s) => RepairResponse::Shred(t, s),
                            Err(_) => RepairResponse::Nack(t),
                        }
                    }
                    other => other,
                };
                deliver(bad);
            }
            Reaction::WrongVariant => {
                let bad = match &rtype {
                    RepairRequestType::LastSliceRoot(_) => RepairResponse::SliceRoot(rtype.clone(), built.slices[0].root.clone(), vec![].into()),
                    RepairRequestType::SliceRoot(..) => RepairResponse::Shred(rtype.clone(), built.slices[0].shreds[0].as_shred().clone()),
                    RepairRequestType::Shred(..) => RepairResponse::LastSliceRoot(rtype.clone(), slice_index(k - 1), built.slices[k - 1].root.clone(), vec![].into()),
                };
                deliver(bad);
            }
            Reaction::WrongIndex => {
                let bad = match (&rtype, correct) {
                    (RepairRequestType::LastSliceRoot(_), RepairResponse::LastSliceRoot(t, _, root, proof)) => RepairResponse::LastSliceRoot(t, slice_index(k), root, proof),
                    (RepairRequestType::SliceRoot(_, s), RepairResponse::SliceRoot(t, ..)) => {
                        let j = (crate::fixtures::shreds::slice_index_inner(*s) + 1) % k;
                        RepairResponse::SliceRoot(t, built.slices[j].root.clone(), vec![].into())
                    }
                    (RepairRequestType::Shred(_, s, i), RepairResponse::Shred(t, _)) => {
                        let si = crate::fixtures::shreds::slice_index_inner(*s);
                        let j = (i.inner() + 1) % 64;
                        RepairResponse::Shred(t, built.slices[si].shreds[j].as_shred().clone())
                    }
                    (_, c) => c,
                };
                deliver(bad);
            }
            Reaction::WrongRoot => {
                let bad = match (&rtype, correct) {
                    (RepairRequestType::LastSliceRoot(_), RepairResponse::LastSliceRoot(t, i, _, proof)) => RepairResponse::LastSliceRoot(t, i, other.slices[0].root.clone(), proof),
                    (RepairRequestType::SliceRoot(..), RepairResponse::SliceRoot(t, _, proof)) => RepairResponse::SliceRoot(t, other.slices[0].root.clone(), proof),
                    (RepairRequestType::Shred(_, s, i), RepairResponse::Shred(t, _)) => {
                        let si = crate::fixtures::shreds::slice_index_inner(*s).min(other.slices.len() - 1);
                        RepairResponse::Shred(t, other.slices[si].shreds[i.inner()].as_shred().clone())
                    }
                    (_, c) => c,
                };
                deliver(bad);
            }
            Reaction::EarlierSliceAsLast => {
                let mut sent = false;
                if let RepairRequestType::LastSliceRoot(_) = &rtype
                    && k >= 2
                {
                    let j = script_i % (k - 1);
                    let q = RepairRequestType::SliceRoot(id.clone(), slice_index(j));
                    if let Some(RepairResponse::SliceRoot(_, root, proof)) = ask(&resp_in, &mut resp_out, make_request(sender, &q)).await {
                        deliver(RepairResponse::LastSliceRoot(rtype.clone(), slice_index(j), root, proof));
                        sent = true;
                    }
                }
                if !sent {
                    deliver(RepairResponse::Nack(rtype.clone()));
                }
            }
            Reaction::LeaderSignedOtherFlag | Reaction::LeaderSignedOtherData => {
                if let RepairRequestType::Shred(_, s, i) = &rtype {
                    let si = crate::fixtures::shreds::slice_index_inner(*s);
                    let mut v = built.slices[si].slice.clone();
                    if reaction == Reaction::LeaderSignedOtherFlag {
                        v.is_last = !v.is_last;
                    } else {
                        v.data = crate::fixtures::blocks::tx_data(&[alpenglow::Transaction(vec![9; 11])]);
                    }
                    let alt = build_slice(v, leader, vec![]);
                    deliver(RepairResponse::Shred(rtype.clone(), alt.shreds[i.inner()].as_shred().clone()));
                } else {
                    deliver(RepairResponse::Nack(rtype.clone()));
                }
            }
        }
    }

    // --- final judgement
    if !out.failed() {
        let st = req_store.read().await;
        match st.get_block(&id) {
            None => out.violate("C14/repair-did-not-complete", format!("{k} slices, script {:?}, max_hostile {}: block not repaired after the script and the retry budget", case.script, case.max_hostile)),
            Some(b) => {
                let (bh, ps, ph, _) = b.verif_parts();
                out.check(bh == &h, "C14/block-stored-under-wrong-hash", String::new);
                out.check((ps, ph.clone()) == bid(built.parent.0, built.parent.1), "C14/repaired-parent-differs", String::new);
                let roots: Vec<_> = (0..k).filter_map(|i| st.get_slice_root(&id, slice_index(i))).collect();
                out.check(roots.len() == k && DoubleMerkleTree::new(roots.iter()).get_root() == h, "C14/slice-roots-do-not-hash-to-id", || format!("{} roots", roots.len()));
                let reg = registered.lock().unwrap().clone();
                out.check(reg.len() == 1 && reg[0].0 == id && reg[0].1 == bid(built.parent.0, built.parent.1), "C14/pool-registration", || format!("{reg:?}"));
            }
        }
        out.nontrivial = hostile_before_correct;
    }
    drop(repair_tx);

    // --- responder probes
    if !out.failed() {
        for (kind, slice, shred, known, sender_ok) in &case.probes {
            let block = if *known { id.clone() } else { bid(case.block.slot, 4242) };
            let t = match kind % 3 {
                0 => RepairRequestType::LastSliceRoot(block.clone()),
                1 => RepairRequestType::SliceRoot(block.clone(), slice_index(*slice as usize)),
                _ => RepairRequestType::Shred(block.clone(), slice_index(*slice as usize), shred_index(*shred as usize)),
            };
            let sender = if *sender_ok { 2 } else { 4 + *shred as u64 };
            let ans = ask(&resp_in, &mut resp_out, make_request(sender, &t)).await;
            if resp_task.is_finished() {
                let p = take_panics().join(" | ");
                out.violate(format!("C14/responder-task-died/{}/{}", panic_site(&p), panic_msg(&p)), format!("probe {t:?}: {p}"));
                break;
            }
            out.checks += 1;
            let si = *slice as usize;
            match (ans, sender_ok) {
                (Some(a), false) => out.violate("C14/responder/answers-unknown-sender", format!("{a:?}")),
                (None, false) => out.label("probe=unknown-sender"),
                (None, true) => out.violate("C14/responder/no-answer", format!("probe {t:?}")),
                (Some(a), true) => {
                    let servable = *known && (kind % 3 == 0 || si < k);
                    match a {
                        RepairResponse::Nack(_) => {
                            out.check(!servable, "C14/responder/nack-for-held-data", || format!("probe {t:?}"));
                            out.label("probe=nack");
                        }
                        RepairResponse::LastSliceRoot(_, i, root, proof) => {
                            out.check(servable && kind % 3 == 0 && i == slice_index(k - 1) && DoubleMerkleTree::check_proof_last(&root, k - 1, &h, &proof), "C14/responder/last-slice-answer-invalid", || format!("probe {t:?}"));
                            out.label("probe=last-slice-root");
                        }
                        RepairResponse::SliceRoot(_, root, proof) => {
                            out.check(servable && kind % 3 == 1 && root == built.slices[si.min(k - 1)].root && DoubleMerkleTree::check_proof(&root, si, &h, &proof), "C14/responder/slice-root-answer-invalid", || format!("probe {t:?}"));
                            out.label("probe=slice-root");
                        }
                        RepairResponse::Shred(_, s) => {
                            let p = ShredParts::of(&s);
                            let ok = servable && kind % 3 == 2 && p.slice_index == si as u64 && p.shred_index == *shred as u64 && ValidatedShred::try_new(s, None, &leader_pk).is_ok_and(|v| v.slice_root() == &built.slices[si.min(k - 1)].root);
                            out.check(ok, "C14/responder/shred-answer-invalid", || format!("probe {t:?}"));
                            out.label("probe=shred");
                        }
                    }
                }
            }
        }
    }
    repair_task.abort();
    resp_task.abort();
    out
}
