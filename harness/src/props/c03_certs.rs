//! C03 — certificates a node emits are valid, justified by accepted votes, and timely.
//! C04 shares the generator and the model (see c04_admission.rs).

use std::collections::BTreeSet;

use alpenglow::consensus::{AddVoteError, Cert, PoolEvent, ValidatedCert};
use alpenglow::types::Slot;
use proptest::prelude::*;
use serde::{Deserialize, Serialize};

use crate::engine::{Outcome, Property, Tier, panic_msg, panic_site, pick_idx};
use crate::fixtures::block_hash;
use crate::fixtures::epoch::stakes_strategy;
use crate::fixtures::pool_driver::{PoolDriver, created_certs};
use crate::fixtures::pool_model::{ExpectedCert, PoolModel};
use crate::fixtures::votes::{CKind, CertSpec, VKind, VoteSpec, cert_kind};

#[derive(Clone, Debug, Serialize, Deserialize)]
pub enum Op {
    Vote { signer: u16, slot: u8, kind: VKind, block: u8 },
    /// received certificate: signer sets are given as bit masks over validators
    Cert { kind: CKind, slot: u8, block: u8, primary: u32, fallback: u32 },
}

#[derive(Clone, Debug, Serialize, Deserialize)]
pub struct Case {
    pub stakes: Vec<u64>,
    pub own: u16,
    /// the slot numbers in play (indices used by ops)
    pub slots: Vec<u64>,
    pub ops: Vec<Op>,
}

/// Per-slot vote profile biasing the kinds so that thresholds are actually reached.
#[derive(Clone, Copy, Debug)]
pub enum Profile {
    NotarA,
    Split,
    Skip,
    Mixed,
    Fallback,
}

pub fn profile_strategy() -> impl Strategy<Value = Profile> {
    prop_oneof![
        Just(Profile::NotarA),
        Just(Profile::Split),
        Just(Profile::Skip),
        Just(Profile::Mixed),
        Just(Profile::Fallback)
    ]
}

pub fn kind_block_strategy(p: Profile) -> BoxedStrategy<(VKind, u8)> {
    use VKind::*;
    let w: [(u32, VKind, u8); 9] = match p {
        Profile::NotarA => [(12, Notar, 0), (1, Notar, 1), (1, NotarFallback, 0), (1, NotarFallback, 1), (1, Skip, 0), (1, SkipFallback, 0), (5, Final, 0), (1, Notar, 2), (1, NotarFallback, 2)],
        Profile::Split => [(5, Notar, 0), (5, Notar, 1), (3, NotarFallback, 0), (3, NotarFallback, 1), (2, Skip, 0), (2, SkipFallback, 0), (1, Final, 0), (2, Notar, 2), (1, NotarFallback, 2)],
        Profile::Skip => [(2, Notar, 0), (1, Notar, 1), (1, NotarFallback, 0), (1, NotarFallback, 1), (9, Skip, 0), (4, SkipFallback, 0), (1, Final, 0), (1, Notar, 2), (1, NotarFallback, 2)],
        Profile::Mixed => [(3, Notar, 0), (3, Notar, 1), (3, NotarFallback, 0), (3, NotarFallback, 1), (3, Skip, 0), (3, SkipFallback, 0), (3, Final, 0), (2, Notar, 2), (2, NotarFallback, 2)],
        Profile::Fallback => [(4, Notar, 0), (2, Notar, 1), (6, NotarFallback, 0), (4, NotarFallback, 1), (2, Skip, 0), (6, SkipFallback, 0), (1, Final, 0), (1, Notar, 2), (2, NotarFallback, 2)],
    };
    let choices: Vec<(u32, BoxedStrategy<(VKind, u8)>)> =
        w.iter().map(|(wt, k, b)| (*wt, Just((*k, *b)).boxed())).collect();
    proptest::strategy::Union::new_weighted(choices).boxed()
}

/// Strategy for one op in a slot with the given profile. `cert_weight` = relative weight of
/// received certificates (0 disables them).
pub fn op_strategy(profiles: Vec<Profile>, cert_weight: u32) -> BoxedStrategy<Op> {
    let nslots = profiles.len();
    let per_slot: Vec<BoxedStrategy<Op>> = profiles
        .iter()
        .enumerate()
        .map(|(si, p)| {
            let vote = (any::<u16>(), kind_block_strategy(*p))
                .prop_map(move |(signer, (kind, block))| Op::Vote { signer, slot: si as u8, kind, block });
            let cert = (
                prop_oneof![
                    Just(CKind::Notar),
                    Just(CKind::NotarFallback),
                    Just(CKind::Skip),
                    Just(CKind::FastFinal),
                    Just(CKind::Final)
                ],
                prop_oneof![4 => Just(0u8), 1 => Just(1u8)],
                // dense masks so that most generated certificates meet their threshold
                (any::<u32>(), any::<u32>()).prop_map(|(a, b)| a | b),
                any::<u32>(),
            )
                .prop_map(move |(kind, block, primary, fallback)| Op::Cert {
                    kind,
                    slot: si as u8,
                    block,
                    primary,
                    fallback,
                });
            if cert_weight == 0 {
                vote.boxed()
            } else {
                prop_oneof![20 => vote, cert_weight => cert].boxed()
            }
        })
        .collect();
    (0..nslots).prop_flat_map(move |si| per_slot[si].clone()).boxed()
}

pub fn case_strategy(n_max: usize, max_ops: usize, cert_weight: u32, far_slots: bool) -> BoxedStrategy<Case> {
    (stakes_strategy(1, n_max), any::<u16>(), prop::collection::vec(profile_strategy(), 1..=3))
        .prop_flat_map(move |(stakes, own, profiles)| {
            let n = stakes.len();
            let mut slots: Vec<u64> = match profiles.len() {
                1 => vec![1],
                2 => vec![1, 2],
                _ => vec![1, 2, 5],
            };
            if far_slots && profiles.len() == 3 {
                slots[2] = 35_999;
            }
            // enough ops for every validator to vote a few times per slot
            let len = 0..=(max_ops.min(4 + n * profiles.len() * 3));
            (Just(stakes), Just(own), Just(slots), prop::collection::vec(op_strategy(profiles, cert_weight), len))
        })
        .prop_map(|(stakes, own, slots, ops)| Case { stakes, own, slots, ops })
        .boxed()
}

pub fn vote_spec(case: &Case, signer: u16, slot: u8, kind: VKind, block: u8) -> VoteSpec {
    VoteSpec {
        kind,
        slot: case.slots[slot as usize % case.slots.len()],
        block: block as u64 + 1,
        signer: pick_idx(signer, case.stakes.len()),
    }
    .norm()
}

pub fn cert_spec(case: &Case, kind: CKind, slot: u8, block: u8, primary: u32, fallback: u32) -> CertSpec {
    let n = case.stakes.len();
    let mut p: Vec<usize> = (0..n).filter(|i| primary >> i & 1 == 1).collect();
    let mut f: Vec<usize> = Vec::new();
    if matches!(kind, CKind::NotarFallback | CKind::Skip) {
        // move some primary signers to the fallback half
        f = p.iter().copied().filter(|i| fallback >> i & 1 == 1).collect();
        p.retain(|i| !f.contains(i));
    }
    CertSpec {
        kind,
        slot: case.slots[slot as usize % case.slots.len()],
        block: if kind.has_hash() { block as u64 + 1 } else { 0 },
        primary: p,
        fallback: f,
    }
}

pub fn is_safety_panic(p: &str) -> bool {
    p.contains("consensus safety violation")
}

/// Decoded (kind, slot, block hash, signer list incl. duplicates) of a certificate.
fn describe(c: &Cert) -> (CKind, u64, Vec<usize>) {
    (cert_kind(c), c.slot().inner(), c.signers().map(|v| v.as_usize()).collect())
}

pub struct C03;

impl Property for C03 {
    type Case = Case;
    fn id(&self) -> &'static str {
        "C03"
    }
    fn cases(&self, tier: Tier) -> u32 {
        tier.pick(12_000, 400_000)
    }
    fn rule(&self) -> String {
        "cases: 1..=10 validators with a generated stake pattern (equal / small ints / heavy tail / dominant / \
         threshold-exact multiples of 5 / near-u64 stakes), 1-3 slots each with a vote profile, a sequence of \
         validly signed votes of all five kinds from any signers (duplicates and conflicts included) interleaved \
         with received certificates built from generated signer sets. Oracle: stake model over the votes the pool \
         accepted predicts, per call, exactly which certificates must be created; each created certificate must \
         validate at a receiver, carry exactly the accepted matching voters once each, and meet its threshold. \
         Non-trivial: at least one certificate was created from votes in the case."
            .into()
    }
    fn assumptions(&self) -> Vec<String> {
        vec![
            "certificate sets that only >=20% Byzantine stake could produce (conflicting notar/fast-final certificates in one slot) end the case as 'unsafe-input' instead of being judged".into(),
            "vote verdicts are taken from the pool (their correctness is C04's subject)".into(),
        ]
    }
    fn strategy(&self, _tier: Tier) -> BoxedStrategy<Case> {
        case_strategy(10, 70, 2, false)
    }
    fn regressions(&self) -> Vec<Case> {
        // defect A: the crossing notar vote was counted before it was stored
        let mut ops = Vec::new();
        for s in 0..11u32 {
            ops.push(Op::Vote { signer: ((s << 16) / 11 + 1) as u16, slot: 0, kind: VKind::Notar, block: 0 });
        }
        vec![
            Case { stakes: vec![1; 11], own: 0, slots: vec![1], ops },
            // a single validator holding >= 80 % votes first
            Case {
                stakes: vec![90, 5, 5],
                own: 0,
                slots: vec![1],
                ops: vec![Op::Vote { signer: 0, slot: 0, kind: VKind::Notar, block: 0 }],
            },
        ]
    }
    fn run(&self, case: &Case) -> Outcome {
        run_case(case, Mode::Certs)
    }
}

#[derive(Clone, Copy, PartialEq, Eq)]
pub enum Mode {
    Certs,
    Admission,
}

pub fn run_case(case: &Case, mode: Mode) -> Outcome {
    let id = if mode == Mode::Certs { "C03" } else { "C04" };
    let mut out = Outcome::default();
    let n = case.stakes.len();
    let own = pick_idx(case.own, n);
    let mut drv = PoolDriver::new(&case.stakes, own);
    let mut model = PoolModel::new(&case.stakes);
    let equal = case.stakes.iter().all(|s| *s == case.stakes[0]);
    let mut created_from_votes = 0usize;
    let mut pairs_seen: BTreeSet<String> = BTreeSet::new();

    for (step, op) in case.ops.iter().enumerate() {
        match op {
            Op::Vote { signer, slot, kind, block } => {
                let spec = vote_spec(case, *signer, *slot, *kind, *block);
                let predicted = model.predict(&spec);
                let (verdict, call) = drv.add_vote(spec);
                if let Some(p) = &call.panic {
                    if is_safety_panic(p) {
                        out.label("ended=unsafe-input");
                        break;
                    }
                    out.violate(format!("{id}/add_vote/panic/{}/{}", panic_site(p), panic_msg(p)), format!("step {step} {spec:?}: {p}"));
                    break;
                }
                let verdict = verdict.expect("no panic");
                if mode == Mode::Admission {
                    super::c04_admission::judge(&mut out, &model, &spec, &predicted, &verdict, step, &mut pairs_seen);
                }
                let created: Vec<&Cert> = created_certs(&call);
                if verdict.is_ok() {
                    let expected = model.apply_vote(&spec);
                    if mode == Mode::Certs {
                        created_from_votes += created.len();
                        judge_created(&mut out, &drv, &model, &expected, &created, step, &spec, equal);
                    } else {
                        // keep the model in sync with what the pool says it holds
                        sync_certs(&mut model, &created);
                    }
                } else if mode == Mode::Certs {
                    out.check(created.is_empty(), "C03/cert-created-by-refused-vote", || {
                        format!("step {step} {spec:?} verdict {verdict:?} created {:?}", created.iter().map(|c| describe(c)).collect::<Vec<_>>())
                    });
                }
            }
            Op::Cert { kind, slot, block, primary, fallback } => {
                let spec = cert_spec(case, *kind, *slot, *block, *primary, *fallback);
                if spec.primary.is_empty() && spec.fallback.is_empty() {
                    continue;
                }
                if matches!(spec.kind, CKind::Notar | CKind::FastFinal | CKind::Final) && spec.primary.is_empty() {
                    continue;
                }
                // only certificates a receiver would admit are offered to the pool
                let all: BTreeSet<usize> = spec.primary.iter().chain(spec.fallback.iter()).copied().collect();
                if !model.meets(&all, spec.kind.threshold_fifths()) {
                    out.label("cert-op=below-threshold-skipped");
                    continue;
                }
                let in_bounds = model.in_bounds(spec.slot);
                let dup = model.cert_is_duplicate(spec.kind, spec.slot, spec.block);
                let res = match drv.add_cert_spec(&spec) {
                    Ok(r) => r,
                    Err(e) => {
                        out.violate(format!("{id}/fixture-cert-rejected"), format!("step {step} {spec:?}: {e}"));
                        break;
                    }
                };
                let (verdict, call) = res;
                if let Some(p) = &call.panic {
                    if is_safety_panic(p) {
                        out.label("ended=unsafe-input");
                        break;
                    }
                    out.violate(format!("{id}/add_cert/panic/{}/{}", panic_site(p), panic_msg(p)), format!("step {step} {spec:?}: {p}"));
                    break;
                }
                let verdict = verdict.expect("no panic");
                let created = created_certs(&call);
                if mode == Mode::Certs {
                    let expect_ok = in_bounds && !dup;
                    out.check(verdict.is_ok() == expect_ok, "C03/add_cert/verdict", || {
                        format!("step {step} {spec:?}: pool said {verdict:?}, model in_bounds={in_bounds} duplicate={dup}")
                    });
                    if verdict.is_ok() {
                        out.check(
                            created.len() == 1 && cert_kind(created[0]) == spec.kind && created[0].slot().inner() == spec.slot,
                            "C03/add_cert/announcement",
                            || format!("step {step} {spec:?}: announced {:?}", created.iter().map(|c| describe(c)).collect::<Vec<_>>()),
                        );
                    } else {
                        out.check(created.is_empty(), "C03/add_cert/refused-but-announced", || format!("step {step} {spec:?}"));
                    }
                }
                if verdict.is_ok() {
                    model.hold_cert(spec.kind, spec.slot, spec.block);
                    out.label("cert-op=accepted");
                }
            }
        }
        if out.failed() {
            break;
        }
        // queries agree with the model for slots that cannot have been pruned
        if mode == Mode::Certs {
            let fin = drv.finalized_slot();
            out.check(fin == model.highest_finalized, "C03/finalized_slot/differs-from-model", || {
                format!("step {step}: pool {fin}, model {}", model.highest_finalized)
            });
            for s in &case.slots {
                if *s <= fin {
                    continue;
                }
                let sm = model.slot(*s);
                let m = |k: CKind| sm.is_some_and(|sm| sm.holds(k));
                let slot = Slot::new(*s);
                let q = [
                    ("has_notar_cert", drv.pool.has_notar_cert(slot), m(CKind::Notar)),
                    ("has_skip_cert", drv.pool.has_skip_cert(slot), m(CKind::Skip)),
                    ("has_final_cert", drv.pool.has_final_cert(slot), m(CKind::Final) || m(CKind::FastFinal)),
                    ("has_notar_or_fallback_cert", drv.pool.has_notar_or_fallback_cert(slot), m(CKind::Notar) || m(CKind::NotarFallback)),
                ];
                for (name, got, want) in q {
                    out.check(got == want, "C03/query/differs-from-model", || format!("step {step} slot {s}: {name} = {got}, model {want}"));
                }
            }
        }
    }
    if mode == Mode::Certs {
        out.nontrivial = created_from_votes > 0;
        if created_from_votes > 0 && !equal {
            out.label("created-with-unequal-stakes");
        }
    } else {
        out.nontrivial = !pairs_seen.is_empty();
        for p in pairs_seen {
            out.label(p);
        }
    }
    out
}

fn sync_certs(model: &mut PoolModel, created: &[&Cert]) {
    for c in created {
        let kind = cert_kind(c);
        let block = c.block_hash().map(|h| (1..=3u64).find(|t| &block_hash(*t) == h).unwrap_or(99)).unwrap_or(0);
        model.hold_cert(kind, c.slot().inner(), block);
    }
}

#[allow(clippy::too_many_arguments)]
fn judge_created(
    out: &mut Outcome,
    drv: &PoolDriver,
    model: &PoolModel,
    expected: &[ExpectedCert],
    created: &[&Cert],
    step: usize,
    spec: &VoteSpec,
    equal_stakes: bool,
) {
    // every created certificate must be expected (only when the threshold is reached, once)
    let mut matched = vec![false; expected.len()];
    for c in created {
        let (kind, slot, signers) = describe(c);
        out.label(format!("created={kind:?}"));
        let block = c.block_hash().cloned();
        let pos = expected.iter().position(|e| {
            e.kind == kind && e.slot == slot && (!kind.has_hash() || Some(block_hash(e.block)) == block)
        });
        let Some(pos) = pos else {
            out.violate(
                format!("C03/created-unjustified/{kind:?}"),
                format!("step {step} {spec:?}: pool created {kind:?} for slot {slot} with signers {signers:?} but the accepted votes do not reach its threshold or a certificate of that type is already held"),
            );
            continue;
        };
        if matched[pos] {
            out.violate(format!("C03/created-twice/{kind:?}"), format!("step {step} {spec:?}"));
            continue;
        }
        matched[pos] = true;
        let e = &expected[pos];
        // signers: exactly the accepted matching voters, each once
        let set: BTreeSet<usize> = signers.iter().copied().collect();
        out.check(set.len() == signers.len(), &format!("C03/signer-counted-twice/{kind:?}"), || {
            format!("step {step} {spec:?}: signers {signers:?}")
        });
        out.check(set == e.signers, &format!("C03/signers-differ-from-accepted-votes/{kind:?}"), || {
            format!("step {step} {spec:?}: certificate signers {set:?}, accepted matching voters {:?}", e.signers)
        });
        out.check(model.meets(&set, kind.threshold_fifths()), &format!("C03/below-threshold/{kind:?}"), || {
            format!("step {step} {spec:?}: signers {set:?} hold {} of {}", model.stake(&set), model.total())
        });
        // a receiver must accept it
        let v = ValidatedCert::try_new((*c).clone(), drv.epoch());
        out.check(v.is_ok(), &format!("C03/rejected-by-receiver/{kind:?}"), || {
            format!("step {step} {spec:?}: {:?}; signers {set:?}", v.as_ref().err())
        });
        if !equal_stakes && spec.signer + 1 != model.stakes.len() {
            out.label("crossing-vote-not-last-validator");
        }
    }
    for (e, m) in expected.iter().zip(&matched) {
        if !m {
            out.violate(
                format!("C03/not-created-at-threshold/{:?}", e.kind),
                format!("step {step} {spec:?}: accepted votes of {:?} reach the {:?} threshold for slot {} block {} but no certificate was created in this call", e.signers, e.kind, e.slot, e.block),
            );
        }
    }
}

#[allow(dead_code)]
fn unused(_: PoolEvent, _: AddVoteError) {}
