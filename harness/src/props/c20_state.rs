//! C20 — execution state: persistent map semantics, fork isolation, content commitment.

use std::collections::BTreeMap;

use alpenglow::Transaction;
use alpenglow::crypto::hash::hash_all;
use alpenglow::crypto::merkle::MerkleRoot;
use alpenglow::execution::{DummyExecution, ExecutionEngine, ExecutionEvent, InProgressBlock, LtHash, State, StateCommitment};
use alpenglow::types::Slot;
use proptest::prelude::*;
use serde::{Deserialize, Serialize};

use crate::engine::{Outcome, Property, Tier, catch, panic_msg, panic_site, pick_idx};
use crate::fixtures::shreds::prng_bytes;
use crate::fixtures::{block_hash, pool_driver::bid};

#[derive(Clone, Debug, Serialize, Deserialize)]
pub struct KeySpec {
    pub base: u8,
    /// bit positions (0..=255) flipped relative to the base key
    pub flips: Vec<u8>,
}

#[derive(Clone, Debug, Serialize, Deserialize)]
pub enum SOp {
    Insert { fork: u16, key: u16, vlen: u8, vseed: u8 },
    Remove { fork: u16, key: u16 },
    Fork { from: u16 },
    Compare { a: u16, b: u16 },
}

#[derive(Clone, Debug, Serialize, Deserialize)]
pub struct BlockSpec {
    pub slot: u8,
    pub known: bool,
    /// parent: 0 = none (genesis), 1..=k = block index k-1 (if earlier slot), else external unknown block
    pub parent: u8,
    /// transactions (length of each), split into slices at the marked positions
    pub txs: Vec<(u8, bool)>,
    pub tx_seed: u8,
}

#[derive(Clone, Debug, Serialize, Deserialize)]
pub enum EOp {
    Begin(u8),
    /// begin a block again while it is still in progress (first slice delivered again / restart):
    /// execution restarts from the parent's commitment
    Rebegin(u8),
    Slice(u8),
    End(u8),
    /// end a block that was never begun
    EndUnknown(u8),
    Finalize(u8),
}

#[derive(Clone, Debug, Serialize, Deserialize)]
pub enum Case {
    Forest { keys: Vec<KeySpec>, ops: Vec<SOp> },
    Engine { blocks: Vec<BlockSpec>, ops: Vec<EOp> },
}

pub struct C20;

fn key_bytes(k: &KeySpec) -> [u8; 32] {
    let mut key: [u8; 32] = prng_bytes(0xBA5E + (k.base % 3) as u64, 32).try_into().unwrap();
    for f in &k.flips {
        key[*f as usize / 8] ^= 0x80 >> (*f % 8);
    }
    key
}

impl Property for C20 {
    type Case = Case;
    fn id(&self) -> &'static str {
        "C20"
    }
    fn cases(&self, tier: Tier) -> u32 {
        tier.pick(30_000, 800_000)
    }
    fn rule(&self) -> String {
        "cases (a) forest: a pool of up to 24 keys clustered around 3 base keys (1-3 flipped bits placed on 5-bit chunk \
         boundaries, next to them, or in the last byte, so that keys share prefixes of up to 255 bits), values of 0..40 \
         bytes (empty included), and a sequence of insert / remove / fork / compare over up to 6 forks; (b) engine: a tree \
         of up to 6 blocks over 4 slots (pending or known ids, at most one pending per slot, parents known / genesis / \
         external), transactions split into slices, with begin / re-begin of a block still in progress / slice / end / finalize interleaved. Oracle (a): one \
         BTreeMap per fork — get, len, insert/remove return values, ordered iteration, fork isolation, equality iff equal \
         contents, incrementally observed LtHash = recomputed from contents; (b) reference fold over the parent's reported \
         commitment (parent block hash / genesis when the parent is not tracked), exactly one event per ended block. \
         Non-trivial: (a) a removal hits a key that shares >= 2 trie levels with another present key, or forks diverge \
         after a split; (b) a block is seeded from another tracked block's commitment."
            .into()
    }
    fn assumptions(&self) -> Vec<String> {
        vec![
            "a child is begun only after its tracked parent has ended (the parent's commitment is then defined)".into(),
            "a child never names a hash in a slot whose pending block was completed under a different hash (ambiguity the trait excludes)".into(),
        ]
    }
    fn strategy(&self, _tier: Tier) -> BoxedStrategy<Case> {
        let flip = prop_oneof![
            3 => (0u8..51).prop_map(|c| c * 5),
            2 => (1u8..51).prop_map(|c| c * 5 - 1),
            2 => (0u8..51).prop_map(|c| c * 5 + 4),
            2 => 248u8..=255,
            1 => any::<u8>(),
        ];
        let key = (0u8..3, prop::collection::vec(flip, 0..=3)).prop_map(|(base, flips)| KeySpec { base, flips });
        let sop = prop_oneof![
            8 => (any::<u16>(), any::<u16>(), prop_oneof![3 => 0u8..40, 1 => Just(0u8)], any::<u8>()).prop_map(|(fork, key, vlen, vseed)| SOp::Insert { fork, key, vlen, vseed }),
            5 => (any::<u16>(), any::<u16>()).prop_map(|(fork, key)| SOp::Remove { fork, key }),
            1 => any::<u16>().prop_map(|from| SOp::Fork { from }),
            1 => (any::<u16>(), any::<u16>()).prop_map(|(a, b)| SOp::Compare { a, b }),
        ];
        let forest = (prop::collection::vec(key, 1..=24), prop::collection::vec(sop, 0..120)).prop_map(|(keys, ops)| Case::Forest { keys, ops });
        let block = (1u8..=4, any::<bool>(), 0u8..9, prop::collection::vec((0u8..40, prop::bool::weighted(0.3)), 0..8), any::<u8>())
            .prop_map(|(slot, known, parent, txs, tx_seed)| BlockSpec { slot, known, parent, txs, tx_seed });
        let eop = prop_oneof![
            4 => (0u8..6).prop_map(EOp::Begin),
            1 => (0u8..6).prop_map(EOp::Rebegin),
            6 => (0u8..6).prop_map(EOp::Slice),
            4 => (0u8..6).prop_map(EOp::End),
            1 => (0u8..6).prop_map(EOp::EndUnknown),
            1 => (0u8..6).prop_map(EOp::Finalize),
        ];
        let engine = (prop::collection::vec(block, 1..=6), prop::collection::vec(eop, 0..60)).prop_map(|(blocks, ops)| Case::Engine { blocks, ops });
        prop_oneof![3 => forest, 1 => engine].boxed()
    }
    fn run(&self, case: &Case) -> Outcome {
        match case {
            Case::Forest { keys, ops } => run_forest(keys, ops),
            Case::Engine { blocks, ops } => run_engine(blocks, ops),
        }
    }
}

fn shared_levels(a: &[u8; 32], b: &[u8; 32]) -> usize {
    let mut bits = 0;
    for i in 0..32 {
        let x = a[i] ^ b[i];
        if x == 0 {
            bits += 8;
        } else {
            bits += x.leading_zeros() as usize;
            break;
        }
    }
    bits / 5
}

fn check_fork(out: &mut Outcome, st: &State, m: &BTreeMap<[u8; 32], Vec<u8>>, what: &str) {
    out.check(st.len() == m.len() && st.is_empty() == m.is_empty(), "C20/len-differs", || format!("{what}: state {} model {}", st.len(), m.len()));
    let got: Vec<([u8; 32], Vec<u8>)> = st.iter().map(|(k, v)| (*k, v.to_vec())).collect();
    let want: Vec<([u8; 32], Vec<u8>)> = m.iter().map(|(k, v)| (*k, v.clone())).collect();
    if got != want {
        let mut g2 = got.clone();
        g2.sort();
        let class = if g2 == want { "order" } else { "contents" };
        out.violate(format!("C20/iteration-differs/{class}"), format!("{what}: {} entries vs model {}", got.len(), want.len()));
    }
    out.checks += 1;
    for (k, v) in m {
        if st.get(k) != Some(v.as_slice()) {
            out.violate("C20/get-differs", format!("{what}: key {:02x?}.. missing or different", &k[..4]));
            break;
        }
    }
}

fn recomputed(m: &BTreeMap<[u8; 32], Vec<u8>>) -> StateCommitment {
    let mut h = LtHash::identity();
    for (k, v) in m {
        h.add_entry(k, v);
    }
    h.digest()
}

fn run_forest(keys: &[KeySpec], ops: &[SOp]) -> Outcome {
    let mut out = Outcome::default();
    out.label("forest");
    let keys: Vec<[u8; 32]> = keys.iter().map(key_bytes).collect();
    let mut states = vec![State::new()];
    let mut models: Vec<BTreeMap<[u8; 32], Vec<u8>>> = vec![BTreeMap::new()];
    let mut hashes = vec![LtHash::identity()];
    let mut diverged = false;
    let r = catch(|| {
        for (step, op) in ops.iter().enumerate() {
            match op {
                SOp::Insert { fork, key, vlen, vseed } => {
                    let f = pick_idx(*fork, states.len());
                    let k = keys[pick_idx(*key, keys.len())];
                    let v = prng_bytes(*vseed as u64, *vlen as usize);
                    let old_m = models[f].insert(k, v.clone());
                    hashes[f].observe(&k, old_m.as_deref(), Some(&v));
                    let old_s = states[f].insert(k, v);
                    out.check(old_s == old_m, "C20/insert-return-differs", || format!("step {step}: {old_s:?} vs {old_m:?}"));
                    if states.len() > 1 {
                        diverged = true;
                    }
                    check_fork(&mut out, &states[f], &models[f], &format!("step {step} insert on fork {f}"));
                }
                SOp::Remove { fork, key } => {
                    let f = pick_idx(*fork, states.len());
                    let k = keys[pick_idx(*key, keys.len())];
                    if models[f].contains_key(&k) && models[f].keys().any(|o| o != &k && shared_levels(o, &k) >= 2) {
                        out.nontrivial = true;
                        out.label("removal-collapses-deep-branch");
                    }
                    let old_m = models[f].remove(&k);
                    hashes[f].observe(&k, old_m.as_deref(), None);
                    let old_s = states[f].remove(&k);
                    out.check(old_s == old_m, "C20/remove-return-differs", || format!("step {step}: {old_s:?} vs {old_m:?}"));
                    check_fork(&mut out, &states[f], &models[f], &format!("step {step} remove on fork {f}"));
                }
                SOp::Fork { from } => {
                    if states.len() < 6 {
                        let f = pick_idx(*from, states.len());
                        states.push(states[f].clone());
                        models.push(models[f].clone());
                        hashes.push(hashes[f].clone());
                    }
                }
                SOp::Compare { a, b } => {
                    let a = pick_idx(*a, states.len());
                    let b = pick_idx(*b, states.len());
                    let eq_s = states[a] == states[b];
                    let eq_m = models[a] == models[b];
                    out.check(eq_s == eq_m, if eq_m { "C20/equal-contents-compare-unequal" } else { "C20/different-contents-compare-equal" }, || format!("step {step}: forks {a},{b}"));
                }
            }
            if out.failed() {
                return;
            }
        }
        // end: every fork still matches its model (isolation), commitments match, pairwise equality
        for f in 0..states.len() {
            check_fork(&mut out, &states[f], &models[f], &format!("end, fork {f} (isolation)"));
            let inc = hashes[f].digest();
            out.check(inc == recomputed(&models[f]), "C20/commitment/incremental-differs-from-recomputed", || format!("fork {f} with {} entries", models[f].len()));
            // a state rebuilt from scratch in another order is equal
            let mut rebuilt = State::new();
            for (k, v) in models[f].iter().rev() {
                rebuilt.insert(*k, v.clone());
            }
            out.check(rebuilt == states[f], "C20/equal-contents-compare-unequal", || format!("fork {f} vs state rebuilt from its contents in reverse order"));
        }
        for a in 0..states.len() {
            for b in a + 1..states.len() {
                let eq_m = models[a] == models[b];
                out.check((states[a] == states[b]) == eq_m, if eq_m { "C20/equal-contents-compare-unequal" } else { "C20/different-contents-compare-equal" }, || format!("forks {a},{b}"));
                out.check((hashes[a].digest() == hashes[b].digest()) == eq_m, "C20/commitment/equality-differs-from-contents", || format!("forks {a},{b}"));
            }
        }
    });
    if let Err(p) = r {
        out.violate(format!("C20/panic/{}/{}", panic_site(&p), panic_msg(&p)), p);
    }
    if diverged && states.len() > 1 {
        out.nontrivial = true;
        out.label("forks-diverge");
    }
    out
}

struct MBlock {
    state: alpenglow::crypto::Hash,
    tx_count: usize,
    ended_as: Option<u64>,
    slices_done: usize,
}

fn run_engine(blocks: &[BlockSpec], ops: &[EOp]) -> Outcome {
    let mut out = Outcome::default();
    out.label("engine");
    let (tx, mut rx) = tokio::sync::mpsc::channel(256);
    let mut eng = DummyExecution::new(tx);
    let nb = blocks.len();
    let tag = |i: usize| 500 + i as u64;
    // at most one pending block per slot
    let mut pending_slot_taken = std::collections::BTreeSet::new();
    let known: Vec<bool> = blocks.iter().map(|b| b.known || !pending_slot_taken.insert(b.slot)).collect();
    let id_of = |i: usize| -> InProgressBlock {
        if known[i] { InProgressBlock::Known(bid(blocks[i].slot as u64, tag(i))) } else { InProgressBlock::Pending(Slot::new(blocks[i].slot as u64)) }
    };
    // slices of each block
    let slices: Vec<Vec<Vec<Transaction>>> = blocks
        .iter()
        .map(|b| {
            let mut all = vec![Vec::new()];
            for (j, (len, cut)) in b.txs.iter().enumerate() {
                all.last_mut().unwrap().push(Transaction(prng_bytes(b.tx_seed as u64 * 131 + j as u64, *len as usize)));
                if *cut {
                    all.push(Vec::new());
                }
            }
            all
        })
        .collect();
    let mut model: BTreeMap<InProgressBlock, MBlock> = BTreeMap::new();
    let r = catch(|| {
        let mut queue: std::collections::VecDeque<EOp> = ops.iter().cloned().collect();
        let mut step = 0usize;
        let mut begun_once: std::collections::BTreeSet<usize> = std::collections::BTreeSet::new();
        while let Some(op) = queue.pop_front() {
            step += 1;
            if step > 400 {
                break;
            }
            match &op {
                EOp::Begin(i) | EOp::Rebegin(i) => {
                    let i = *i as usize % nb;
                    let id = id_of(i);
                    let again = matches!(op, EOp::Rebegin(_));
                    match model.get(&id) {
                        Some(m) if again && m.ended_as.is_none() => {
                            if m.tx_count > 0 {
                                out.nontrivial = true;
                                out.label("re-begun-after-transactions");
                            }
                        }
                        Some(_) => continue,
                        None if again => continue,
                        None => {}
                    }
                    let b = &blocks[i];
                    // resolve the parent
                    let parent: Option<(u64, u64)> = match b.parent {
                        0 => None,
                        p if (p as usize - 1) < nb && blocks[p as usize - 1].slot < b.slot => Some((blocks[p as usize - 1].slot as u64, tag(p as usize - 1))),
                        p => Some((0.max(b.slot as i64 - 1) as u64, 900 + p as u64)),
                    };
                    // half of the blocks insist on their in-tree parent being executed first
                    if let Some((_, pt)) = parent
                        && b.tx_seed % 2 == 0
                        && let Some(pidx) = (0..nb).find(|j| tag(*j) == pt)
                        && !model.contains_key(&id_of(pidx))
                        && !begun_once.contains(&pidx)
                    {
                        begun_once.insert(pidx);
                        queue.push_front(EOp::Begin(i as u8));
                        queue.push_front(EOp::End(pidx as u8));
                        queue.push_front(EOp::Slice(pidx as u8));
                        queue.push_front(EOp::Begin(pidx as u8));
                        continue;
                    }
                    // the seed by the statement
                    let mut seed = None;
                    let mut skip = false;
                    if let Some((ps, pt)) = parent {
                        let k = InProgressBlock::Known(bid(ps, pt));
                        let p = InProgressBlock::Pending(Slot::new(ps));
                        if let Some(m) = model.get(&k) {
                            if m.ended_as.is_none() {
                                skip = true; // parent still executing: its commitment is not defined yet
                            }
                            seed = Some(m.state.clone());
                        } else if let Some(m) = model.get(&p) {
                            match m.ended_as {
                                None => skip = true,
                                Some(t) if t != pt => skip = true, // ambiguous: pending block of that slot has another hash
                                Some(_) => seed = Some(m.state.clone()),
                            }
                        }
                    }
                    if skip {
                        // parent still executing: finish it first, then retry (its commitment is defined only then)
                        if let Some((ps, pt)) = parent {
                            let pidx = (0..nb).find(|j| tag(*j) == pt).or_else(|| (0..nb).find(|j| !known[*j] && blocks[*j].slot as u64 == ps));
                            if let Some(pidx) = pidx
                                && model.get(&id_of(pidx)).is_some_and(|m| m.ended_as.is_none())
                            {
                                queue.push_front(EOp::Begin(i as u8));
                                queue.push_front(EOp::End(pidx as u8));
                            }
                        }
                        continue;
                    }
                    let tracked_parent = seed.is_some();
                    let seed = seed.unwrap_or_else(|| match parent {
                        None => alpenglow::crypto::merkle::GENESIS_BLOCK_HASH.as_hash().clone(),
                        Some((0, _)) => alpenglow::crypto::merkle::GENESIS_BLOCK_HASH.as_hash().clone(),
                        Some((_, pt)) => block_hash(pt).as_hash().clone(),
                    });
                    eng.begin_block(id.clone(), parent.map(|(s, t)| bid(s, t)));
                    model.insert(id, MBlock { state: seed, tx_count: 0, ended_as: None, slices_done: 0 });
                    if tracked_parent {
                        out.nontrivial = true;
                        out.label("seeded-from-tracked-parent");
                    } else {
                        out.label(if parent.is_some() { "seeded-from-parent-hash" } else { "seeded-from-genesis" });
                    }
                }
                EOp::Slice(i) => {
                    let i = *i as usize % nb;
                    let id = id_of(i);
                    let Some(m) = model.get_mut(&id) else { continue };
                    if m.ended_as.is_some() || m.slices_done >= slices[i].len() {
                        continue;
                    }
                    let txs = slices[i][m.slices_done].clone();
                    m.slices_done += 1;
                    for t in &txs {
                        m.state = hash_all(&[m.state.as_ref(), t.0.as_slice()]);
                    }
                    m.tx_count += txs.len();
                    eng.execute_transactions(id, txs);
                }
                EOp::End(i) => {
                    let i = *i as usize % nb;
                    let id = id_of(i);
                    let Some(m) = model.get_mut(&id) else { continue };
                    if m.ended_as.is_some() {
                        continue;
                    }
                    m.ended_as = Some(tag(i));
                    let want_commit: StateCommitment = m.state.clone().into();
                    let want_count = m.tx_count;
                    eng.end_block(bid(blocks[i].slot as u64, tag(i)));
                    match rx.try_recv() {
                        Ok(ExecutionEvent::BlockExecuted { block_id, result }) => {
                            out.check(block_id == bid(blocks[i].slot as u64, tag(i)), "C20/engine/event-for-wrong-block", || format!("step {step}"));
                            match result {
                                Ok(r) => {
                                    out.check(r.tx_count == want_count, "C20/engine/tx-count-differs", || format!("step {step}: {} vs {want_count}", r.tx_count));
                                    out.check(r.state_commitment == want_commit, "C20/engine/commitment-differs", || {
                                        format!("step {step}: block {i} (slot {}, {}): reported commitment differs from fold(parent commitment, transactions)", blocks[i].slot, if known[i] { "known id" } else { "pending id" })
                                    });
                                }
                                Err(e) => out.violate("C20/engine/unexpected-error", format!("step {step}: {e:?}")),
                            }
                        }
                        Err(_) => out.violate("C20/engine/no-event-for-ended-block", format!("step {step}: block {i}")),
                    }
                    out.check(rx.try_recv().is_err(), "C20/engine/extra-event", || format!("step {step}"));
                }
                EOp::EndUnknown(i) => {
                    eng.end_block(bid(9, 700 + *i as u64));
                    out.check(rx.try_recv().is_err(), "C20/engine/event-for-unknown-block", || format!("step {step}"));
                }
                EOp::Finalize(i) => {
                    let i = *i as usize % nb;
                    let slot = blocks[i].slot as u64;
                    eng.finalize(bid(slot, tag(i)));
                    model.retain(|id, _| match id {
                        InProgressBlock::Pending(s) => s.inner() >= slot,
                        InProgressBlock::Known((s, _)) => s.inner() >= slot,
                    });
                    out.label("finalize");
                }
            }
            if out.failed() {
                return;
            }
        }
    });
    if let Err(p) = r {
        out.violate(format!("C20/engine/panic/{}/{}", panic_site(&p), panic_msg(&p)), p);
    }
    out
}
