//! C11 — erasure coding: any 32 of a slice's 64 shreds restore it bit-for-bit.

use alpenglow::crypto::signature::PublicKey;
use alpenglow::shredder::{
    AontShredder, CodingOnlyShredder, DeshredError, PetsShredder, RegularShredder, ShredError, Shredder, TOTAL_SHREDS, ValidatedShred,
};
use proptest::prelude::*;
use serde::{Deserialize, Serialize};

use crate::engine::{Outcome, Property, Tier, catch, panic_msg, panic_site};
use crate::fixtures::keys;
use crate::fixtures::shreds::{make_slice, payload_len, prng_bytes, shred_bytes};

#[derive(Clone, Copy, Debug, PartialEq, Eq, Serialize, Deserialize)]
pub enum Kind {
    Regular,
    CodingOnly,
    Aont,
    Pets,
}

#[derive(Clone, Debug, Serialize, Deserialize)]
pub enum Fill {
    Random(u64),
    Zeros,
    Ones,
    /// random with the last `k` bytes zero
    TrailingZeros(u64, u8),
    /// random ending with the padding marker byte 0x80 followed by `k` zeros
    TrailingMarker(u64, u8),
}

#[derive(Clone, Debug, Serialize, Deserialize)]
pub enum Subset {
    All,
    None,
    /// first k shreds
    First(u8),
    /// last k shreds
    Last(u8),
    /// k shreds chosen by a seeded permutation
    Count(u8, u64),
    Mask(u64),
    AllData,
    AllCoding,
}

#[derive(Clone, Debug, Serialize, Deserialize)]
pub struct Case {
    pub kind: Kind,
    /// payload length on the erasure-coding input relative to the shredder's limit:
    /// Abs(n) = n bytes, BelowMax(d) = MAX - d, AboveMax(d) = MAX + d
    pub len: Len,
    pub parent: bool,
    pub fill: Fill,
    pub slot: u64,
    pub slice: u16,
    pub is_last: bool,
    pub subset: Subset,
    /// also try an array mixing shreds of a second slice (error path must leave it untouched)
    pub mix: Option<u64>,
    pub leader: u8,
    /// the shredder instance is not fresh: it has already shredded (and optionally restored) another
    /// slice of this relative size - before the slice under test, or between shredding and
    /// restoring it
    #[serde(default)]
    pub reuse: Option<Reuse>,
}

#[derive(Clone, Debug, Serialize, Deserialize)]
pub struct Reuse {
    /// erasure-coding input length of the other slice in 1/1000 of the shredder's limit
    pub permille: u16,
    pub between: bool,
    pub restore: bool,
}

#[derive(Clone, Debug, Serialize, Deserialize)]
pub enum Len {
    Abs(u16),
    BelowMax(u16),
    AboveMax(u8),
}

pub struct C11;

fn subset_indices(s: &Subset, n_data: usize) -> Vec<usize> {
    match s {
        Subset::All => (0..64).collect(),
        Subset::None => vec![],
        Subset::First(k) => (0..(*k as usize).min(64)).collect(),
        Subset::Last(k) => (64 - (*k as usize).min(64)..64).collect(),
        Subset::Count(k, seed) => {
            let mut idx: Vec<usize> = (0..64).collect();
            let r = prng_bytes(*seed, 64);
            for i in (1..64).rev() {
                idx.swap(i, r[i] as usize % (i + 1));
            }
            idx.truncate((*k as usize).min(64));
            idx.sort();
            idx
        }
        Subset::Mask(m) => (0..64).filter(|i| m >> i & 1 == 1).collect(),
        Subset::AllData => (0..n_data).collect(),
        Subset::AllCoding => (n_data..64).collect(),
    }
}

impl Property for C11 {
    type Case = Case;
    fn id(&self) -> &'static str {
        "C11"
    }
    fn cases(&self, tier: Tier) -> u32 {
        tier.pick(16_000, 500_000)
    }
    fn rule(&self) -> String {
        "cases: one of the four shredders; a slice whose erasure-coding input length is 0..=2048, any length up to the \
         shredder's limit, limit-d (d < 600) or limit+d (refusal); with / without parent; payload fills incl. all-zero, \
         trailing zeros and trailing padding-marker bytes; slot, slice index, last flag; a subset of the 64 shred indices \
         (sizes weighted to 0, 1, 31, 32, 33, 63, 64; first / last / scattered / all-data / all-coding / bit mask); \
         optionally an array mixing equal-sized shreds of a second slice. Oracle: >= 32 shreds restore exactly the slice \
         and refill all 64 entries byte-identical to the leader's, each validating from scratch; < 32 gives \
         NotEnoughShreds; oversize gives TooMuchData at shredding; every error leaves the array bit-identical. \
         Non-trivial: at least one data shred missing from the subset and the input length not a multiple of 64."
            .into()
    }
    fn assumptions(&self) -> Vec<String> {
        vec!["the two all-or-nothing shredders draw their key from the thread RNG; oracles are round-trips so the key value is irrelevant".into()]
    }
    fn strategy(&self, _tier: Tier) -> BoxedStrategy<Case> {
        let len = prop_oneof![
            4 => (0u16..=2048).prop_map(Len::Abs),
            3 => any::<u16>().prop_map(Len::Abs),
            3 => (0u16..600).prop_map(Len::BelowMax),
            1 => (1u8..=64).prop_map(Len::AboveMax),
        ];
        let fill = prop_oneof![
            6 => any::<u64>().prop_map(Fill::Random),
            1 => Just(Fill::Zeros),
            1 => Just(Fill::Ones),
            1 => (any::<u64>(), 1u8..80).prop_map(|(s, k)| Fill::TrailingZeros(s, k)),
            1 => (any::<u64>(), 0u8..80).prop_map(|(s, k)| Fill::TrailingMarker(s, k)),
        ];
        let k = prop_oneof![Just(0u8), Just(1), Just(31), Just(32), Just(32), Just(33), Just(63), Just(64), 0u8..=64];
        let subset = prop_oneof![
            1 => Just(Subset::All),
            1 => Just(Subset::None),
            2 => k.clone().prop_map(Subset::First),
            2 => k.clone().prop_map(Subset::Last),
            6 => (k, any::<u64>()).prop_map(|(k, s)| Subset::Count(k, s)),
            2 => any::<u64>().prop_map(Subset::Mask),
            1 => Just(Subset::AllData),
            1 => Just(Subset::AllCoding),
        ];
        (
            prop_oneof![Just(Kind::Regular), Just(Kind::CodingOnly), Just(Kind::Aont), Just(Kind::Pets)],
            len,
            any::<bool>(),
            fill,
            prop_oneof![3 => 1u64..100, 1 => any::<u64>()],
            0u16..1024,
            any::<bool>(),
            subset,
            prop::option::weighted(0.2, any::<u64>()),
            0u8..4,
            prop::option::weighted(0.3, (prop_oneof![2 => Just(1000u16), 1 => Just(0u16), 3 => 0u16..=1000], any::<bool>(), any::<bool>()).prop_map(|(permille, between, restore)| Reuse { permille, between, restore })),
        )
            .prop_map(|(kind, len, parent, fill, slot, slice, is_last, subset, mix, leader, reuse)| Case { kind, len, parent, fill, slot, slice, is_last, subset, mix, leader, reuse })
            .boxed()
    }
    fn run(&self, case: &Case) -> Outcome {
        match case.kind {
            Kind::Regular => run::<RegularShredder>(case),
            Kind::CodingOnly => run::<CodingOnlyShredder>(case),
            Kind::Aont => run::<AontShredder>(case),
            Kind::Pets => run::<PetsShredder>(case),
        }
    }
}

fn fill_data(fill: &Fill, len: usize) -> Vec<u8> {
    match fill {
        Fill::Random(s) => prng_bytes(*s, len),
        Fill::Zeros => vec![0; len],
        Fill::Ones => vec![0xff; len],
        Fill::TrailingZeros(s, k) => {
            let mut d = prng_bytes(*s, len);
            let k = (*k as usize).min(len);
            for b in &mut d[len - k..] {
                *b = 0;
            }
            d
        }
        Fill::TrailingMarker(s, k) => {
            let mut d = prng_bytes(*s, len);
            let k = (*k as usize).min(len.saturating_sub(1));
            if len > 0 {
                d[len - 1 - k] = 0x80;
                for b in &mut d[len - k..] {
                    *b = 0;
                }
            }
            d
        }
    }
}

fn array_bytes(a: &[Option<ValidatedShred>; TOTAL_SHREDS]) -> Vec<Option<Vec<u8>>> {
    a.iter().map(|s| s.as_ref().map(|s| shred_bytes(s.as_shred()))).collect()
}

fn run<S: Shredder>(case: &Case) -> Outcome {
    let mut out = Outcome::default();
    let max = S::MAX_DATA_SIZE;
    let overhead = payload_len(case.parent, 0);
    let target = match case.len {
        Len::Abs(n) => (n as usize).min(max),
        Len::BelowMax(d) => max.saturating_sub(d as usize),
        Len::AboveMax(d) => max + d as usize,
    };
    let target = target.max(overhead);
    let data_len = target - overhead;
    let input_len = payload_len(case.parent, data_len);
    let data = fill_data(&case.fill, data_len);
    let parent = case.parent.then_some((case.slot.saturating_sub(1).min(case.slot), 7u64));
    let slice = make_slice(case.slot, case.slice as usize, case.is_last, parent, data);
    let sk = &keys().sig[case.leader as usize];
    let pk: PublicKey = sk.to_pk();
    out.label(format!("shredder={:?}", case.kind));

    let mut shredder = S::default();
    // a shredder is a long-lived object in the node (one per block producer / blockstore slot):
    // what it did before must not matter
    let other_use = |shredder: &mut S, out: &mut Outcome| {
        let Some(r) = &case.reuse else { return };
        out.label(if r.between { "shredder-reused-between-shred-and-restore" } else { "shredder-reused-before" });
        let olen = (max * r.permille as usize / 1000).max(payload_len(true, 0));
        let odata = prng_bytes(case.slot ^ 0x5EED, olen - payload_len(true, 0));
        let oslice = make_slice(case.slot + 1, 0, false, Some((case.slot, 9)), odata);
        let res = catch(|| {
            if let Ok(sh) = shredder.shred(&oslice, sk)
                && r.restore
            {
                let mut arr: [Option<ValidatedShred>; TOTAL_SHREDS] = [const { None }; TOTAL_SHREDS];
                for (i, s) in sh.iter().enumerate().skip(16).take(40) {
                    arr[i] = Some(s.clone());
                }
                let _ = shredder.deshred(&mut arr);
            }
        });
        if let Err(p) = res {
            out.violate(format!("C11/reuse/panic/{}/{}", panic_site(&p), panic_msg(&p)), format!("other slice of {olen} bytes: {p}"));
        }
    };
    if case.reuse.as_ref().is_some_and(|r| !r.between) {
        other_use(&mut shredder, &mut out);
    }
    let shredded = match catch(|| shredder.shred(&slice, sk)) {
        Ok(r) => r,
        Err(p) => {
            out.violate(format!("C11/shred/panic/{}/{}", panic_site(&p), panic_msg(&p)), format!("input length {input_len}: {p}"));
            return out;
        }
    };
    out.checks += 1;
    let shreds = match shredded {
        Ok(s) => {
            if input_len > max {
                out.violate("C11/oversize-slice-not-refused", format!("input length {input_len} > limit {max}"));
                return out;
            }
            s
        }
        Err(ShredError::TooMuchData) => {
            if input_len <= max {
                out.violate("C11/slice-within-limit-refused", format!("input length {input_len} <= limit {max}"));
            } else {
                out.label("refused-oversize");
            }
            return out;
        }
    };
    // every produced shred validates from scratch and sits at its index
    for (i, s) in shreds.iter().enumerate() {
        out.check(s.payload().index_in_slot() == case.slice as usize * TOTAL_SHREDS + i, "C11/shred-at-wrong-position", || format!("position {i}"));
        let v = ValidatedShred::try_new(s.as_shred().clone(), None, &pk);
        out.check(v.is_ok(), "C11/produced-shred-invalid", || format!("shred {i}: {:?}", v.err()));
    }
    if case.reuse.as_ref().is_some_and(|r| r.between) {
        other_use(&mut shredder, &mut out);
    }
    let n_data = S::DATA_OUTPUT_SHREDS;
    let leader_bytes: Vec<Vec<u8>> = shreds.iter().map(|s| shred_bytes(s.as_shred())).collect();
    let idx = subset_indices(&case.subset, n_data);
    let mut array: [Option<ValidatedShred>; TOTAL_SHREDS] = [const { None }; TOTAL_SHREDS];
    for i in &idx {
        array[*i] = Some(shreds[*i].clone());
    }
    let before = array_bytes(&array);
    out.label(format!("subset-size={}", match idx.len() { 0 => "0".into(), 1..=30 => "1-30".to_string(), 31 => "31".into(), 32 => "32".into(), 33 => "33".into(), 64 => "64".into(), _ => "34-63".to_string() }));
    let res = match catch(|| shredder.deshred(&mut array)) {
        Ok(r) => r,
        Err(p) => {
            out.violate(format!("C11/deshred/panic/{}/{}", panic_site(&p), panic_msg(&p)), format!("input length {input_len}, subset {idx:?}: {p}"));
            return out;
        }
    };
    out.checks += 1;
    if idx.len() < 32 {
        match res {
            Err(DeshredError::NotEnoughShreds) => {}
            Err(e) => out.violate("C11/too-few-shreds/wrong-error", format!("{} shreds: {e:?}", idx.len())),
            Ok(_) => out.violate("C11/reconstructed-from-fewer-than-32", format!("{} shreds", idx.len())),
        }
        out.check(array_bytes(&array) == before, "C11/array-modified-on-error", || format!("{} shreds supplied", idx.len()));
    } else {
        match res {
            Ok(rec) => {
                let same = rec.slot == slice.slot && rec.slice_index == slice.slice_index && rec.is_last == slice.is_last && rec.parent == slice.parent && rec.data == slice.data;
                out.check(same, "C11/restored-slice-differs", || {
                    format!("input length {input_len}, subset {idx:?}: header/parent equal: {}, data equal: {}", rec.slot == slice.slot && rec.parent == slice.parent, rec.data == slice.data)
                });
                for i in 0..TOTAL_SHREDS {
                    match &array[i] {
                        None => {
                            out.violate("C11/missing-shred-not-regenerated", format!("entry {i} still empty, subset {idx:?}"));
                            break;
                        }
                        Some(s) => {
                            out.checks += 1;
                            if shred_bytes(s.as_shred()) != leader_bytes[i] {
                                out.violate("C11/regenerated-shred-differs", format!("entry {i} differs from the leader's shred; input length {input_len}, subset size {}", idx.len()));
                                break;
                            }
                            if !idx.contains(&i) {
                                let v = ValidatedShred::try_new(s.as_shred().clone(), None, &pk);
                                if v.is_err() {
                                    out.violate("C11/regenerated-shred-invalid", format!("entry {i}: {:?}", v.err()));
                                    break;
                                }
                            }
                        }
                    }
                }
            }
            Err(e) => {
                out.violate("C11/enough-shreds-not-reconstructed", format!("{} shreds, input length {input_len}: {e:?}", idx.len()));
            }
        }
        let data_missing = (0..n_data).any(|i| !idx.contains(&i));
        out.nontrivial = data_missing && !input_len.is_multiple_of(64);
    }

    // error path: validly signed, consistently coded shreds whose content is not a slice payload
    // (what a Byzantine leader can sign): the all-or-nothing shredder's ciphertext offered to
    // the plain decoder, which shares its 32+32 layout
    if case.kind == Kind::Aont && idx.len() >= 32 && idx.len() < 64 && !out.failed() {
        let mut array: [Option<ValidatedShred>; TOTAL_SHREDS] = [const { None }; TOTAL_SHREDS];
        for i in &idx {
            array[*i] = Some(shreds[*i].clone());
        }
        let before = array_bytes(&array);
        let mut plain = RegularShredder::default();
        match catch(|| plain.deshred(&mut array)) {
            Err(p) => out.violate(format!("C11/deshred/panic/{}/{}", panic_site(&p), panic_msg(&p)), format!("undecodable content: {p}")),
            Ok(Ok(_)) => out.label("ciphertext-happened-to-decode"),
            Ok(Err(_)) => {
                out.check(array_bytes(&array) == before, "C11/array-modified-on-error", || {
                    format!("undecodable (encrypted) content, {} shreds supplied: missing entries were filled although decoding failed", idx.len())
                });
                out.label("undecodable-content-error-path");
            }
        }
    }

    // error path: an array that mixes equal-sized shreds of two different slices of this leader
    if let Some(seed) = case.mix
        && !out.failed()
    {
        let mut other = slice.clone();
        other.data = prng_bytes(seed ^ 0xABCD, other.data.len());
        if other.data != slice.data
            && let Ok(Ok(other_shreds)) = catch(|| shredder.shred(&other, sk))
        {
            let mut array: [Option<ValidatedShred>; TOTAL_SHREDS] = [const { None }; TOTAL_SHREDS];
            let r = prng_bytes(seed, 64);
            let mut n_a = 0;
            let mut n_b = 0;
            for i in 0..TOTAL_SHREDS {
                match r[i] % 3 {
                    0 => {
                        array[i] = Some(shreds[i].clone());
                        n_a += 1;
                    }
                    1 => {
                        array[i] = Some(other_shreds[i].clone());
                        n_b += 1;
                    }
                    _ => {}
                }
            }
            if n_a > 0 && n_b > 0 && n_a + n_b >= 32 && n_a < 32 && n_b < 32 {
                let before = array_bytes(&array);
                match catch(|| shredder.deshred(&mut array)) {
                    Err(p) => out.violate(format!("C11/deshred/panic/{}/{}", panic_site(&p), panic_msg(&p)), format!("mixed array: {p}")),
                    Ok(Ok(_)) => out.violate("C11/mixed-slices-reconstructed", format!("{n_a} shreds of one slice and {n_b} of another decoded to a slice")),
                    Ok(Err(_)) => {
                        out.check(array_bytes(&array) == before, "C11/array-modified-on-error", || "mixed array".into());
                        out.label("mixed-array-error-path");
                    }
                }
            }
        }
    }
    out
}
