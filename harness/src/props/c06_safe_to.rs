//! C06 — safe-to-notar / safe-to-skip are signalled exactly when the protocol allows.
//!
//! World: two possible parents P0=(slot 1), P1=(slot 2), plus a sibling of P0 in slot 1 that may get
//! certified instead of (or besides) P0; children compete in slots 3 and 5, each
//! with a parent from {P0, P1, genesis}. Own votes, other validators' votes, block registration
//! and parent certificates (by votes or received) are interleaved in a generated order. After
//! every call the model recomputes both predicates from the accepted history; the events of the
//! call must be exactly the predicates that became true and were not signalled before.

use std::collections::BTreeSet;

use alpenglow::consensus::PoolEvent;
use proptest::prelude::*;
use serde::{Deserialize, Serialize};

use super::c03_certs::{Profile, is_safety_panic, kind_block_strategy};
use crate::engine::{Outcome, Property, Tier, panic_msg, panic_site, pick_idx};
use crate::fixtures::block_hash;
use crate::fixtures::epoch::stakes_strategy;
use crate::fixtures::pool_driver::{CallOutput, PoolDriver, bid};
use crate::fixtures::pool_model::PoolModel;
use crate::fixtures::votes::{CKind, CertSpec, VKind, VoteSpec};

// P0, P1 and a sibling of P0 in the same slot (never a parent of a child, but it can be certified)
const PARENT_SLOTS: [u64; 3] = [1, 2, 1];
const PARENT_TAGS: [u64; 3] = [10, 11, 12];
const CHILD_SLOTS: [u64; 2] = [3, 5];

#[derive(Clone, Debug, Serialize, Deserialize)]
pub enum Op {
    /// vote by any validator (possibly the own one) in a child slot
    Vote { signer: u16, cslot: u8, kind: VKind, block: u8 },
    /// own initial / fallback vote in a child slot
    Own { cslot: u8, kind: VKind, block: u8 },
    /// notar / notar-fallback vote for a parent block
    ParentVote { signer: u16, parent: u8, fallback: bool },
    /// received certificate for a parent block
    ParentCert { parent: u8, kind: CKind, mask: u32, fb: u32 },
    /// register child block (slot, tag) with its parent
    AddBlock { cslot: u8, block: u8 },
}

#[derive(Clone, Debug, Serialize, Deserialize)]
pub struct Case {
    pub stakes: Vec<u64>,
    pub own: u16,
    /// parent choice per child block: index = cslot*3 + block; value 0 => P0, 1 => P1, 2 => genesis
    pub parents: Vec<u8>,
    pub ops: Vec<Op>,
}

fn child_parent(case: &Case, cslot: usize, block: usize) -> (u64, u64) {
    match case.parents[cslot * 3 + block] % 3 {
        0 => (PARENT_SLOTS[0], PARENT_TAGS[0]),
        1 => (PARENT_SLOTS[1], PARENT_TAGS[1]),
        _ => (0, 0),
    }
}

pub struct C06;

fn op_strategy(profiles: [Profile; 2]) -> BoxedStrategy<Op> {
    let vote = (any::<u16>(), 0u8..2).prop_flat_map(move |(signer, cslot)| {
        kind_block_strategy(profiles[cslot as usize]).prop_map(move |(kind, block)| {
            // final votes are not part of this scenario (they would finalise the child slot)
            let kind = if kind == VKind::Final { VKind::Skip } else { kind };
            Op::Vote { signer, cslot, kind, block }
        })
    });
    let own = (0u8..2, prop_oneof![3 => Just(VKind::Notar), 3 => Just(VKind::Skip), 1 => Just(VKind::NotarFallback), 1 => Just(VKind::SkipFallback)], 0u8..3)
        .prop_map(|(cslot, kind, block)| Op::Own { cslot, kind, block });
    let pvote = (any::<u16>(), prop_oneof![3 => 0u8..2, 1 => Just(2u8)], prop::bool::weighted(0.25)).prop_map(|(signer, parent, fallback)| Op::ParentVote { signer, parent, fallback });
    let pcert = (prop_oneof![3 => 0u8..2, 1 => Just(2u8)], prop_oneof![Just(CKind::Notar), Just(CKind::NotarFallback), Just(CKind::FastFinal)], (any::<u32>(), any::<u32>()).prop_map(|(a, b)| a | b), any::<u32>())
        .prop_map(|(parent, kind, mask, fb)| Op::ParentCert { parent, kind, mask, fb });
    let addb = (0u8..2, 0u8..3).prop_map(|(cslot, block)| Op::AddBlock { cslot, block });
    prop_oneof![12 => vote, 3 => own, 5 => pvote, 2 => pcert, 4 => addb].boxed()
}

impl Property for C06 {
    type Case = Case;
    fn id(&self) -> &'static str {
        "C06"
    }
    fn cases(&self, tier: Tier) -> u32 {
        tier.pick(10_000, 300_000)
    }
    fn rule(&self) -> String {
        "cases: 2..=9 validators with generated stakes (threshold-exact patterns on 20/40/60 %), two candidate parents \
         (slots 1, 2) and up to three competing children in each of slots 3 and 5, each child with a parent from \
         {P0, P1, genesis}; generated interleaving of other validators' notar / notar-fallback / skip / skip-fallback votes, \
         the node's own votes (initial vote before any fallback vote), block registrations, parent notar / notar-fallback \
         votes and received parent certificates (notar / notar-fallback / fast-final), with duplicates. Oracle: after \
         every call the predicates of the statement are recomputed from the accepted history; emitted events must equal \
         the predicates that became true and were not yet signalled. Non-trivial: at least one predicate became true; \
         classes record which trigger arrived last."
            .into()
    }
    fn assumptions(&self) -> Vec<String> {
        vec![
            "a genesis or pruned parent has no certificate the node holds, so its children are never safe-to-notar (reading of the statement)".into(),
            "own fallback votes are only injected after the own initial vote in that slot (a correct node's order)".into(),
            "the case ends when a child slot becomes finalised (implicit finalisation and pruning are C08's subject)".into(),
        ]
    }
    fn strategy(&self, _tier: Tier) -> BoxedStrategy<Case> {
        let prof = || prop_oneof![Just(Profile::Split), Just(Profile::Split), Just(Profile::Skip), Just(Profile::Mixed), Just(Profile::NotarA)];
        (stakes_strategy(2, 9), any::<u16>(), prop::collection::vec(prop_oneof![4 => Just(0u8), 3 => Just(1u8), 1 => Just(2u8)], 6), prof(), prof())
            .prop_flat_map(|(stakes, own, parents, p0, p1)| {
                let n = stakes.len();
                (Just(stakes), Just(own), Just(parents), prop::collection::vec(op_strategy([p0, p1]), 0..=(12 + n * 7)))
            })
            .prop_map(|(stakes, own, parents, ops)| Case { stakes, own, parents, ops })
            .boxed()
    }
    fn regressions(&self) -> Vec<Case> {
        let v = |signer: usize, n: usize| ((signer << 16) / n + 1) as u16;
        vec![
            // defect B: 45 % skip present, own notar vote arrives last -> safe-to-skip in that call
            Case {
                stakes: vec![1; 11],
                own: 0,
                parents: vec![0; 6],
                ops: (1..6)
                    .map(|s| Op::Vote { signer: v(s, 11), cslot: 0, kind: VKind::Skip, block: 0 })
                    .chain([Op::Own { cslot: 0, kind: VKind::Notar, block: 0 }])
                    .collect(),
            },
            // defect C: two children of one parent registered before the parent's certificate
            Case {
                stakes: vec![1; 10],
                own: 0,
                parents: vec![0; 6],
                ops: [Op::Own { cslot: 0, kind: VKind::Skip, block: 0 }]
                    .into_iter()
                    .chain((1..5).map(|s| Op::Vote { signer: v(s, 10), cslot: 0, kind: VKind::Notar, block: 0 }))
                    .chain((5..9).map(|s| Op::Vote { signer: v(s, 10), cslot: 0, kind: VKind::Notar, block: 1 }))
                    .chain([Op::AddBlock { cslot: 0, block: 0 }, Op::AddBlock { cslot: 0, block: 1 }])
                    .chain([Op::ParentCert { parent: 0, kind: CKind::Notar, mask: 0x3ff, fb: 0 }])
                    .collect(),
            },
            // defect S: parent certified only by a fast-final certificate arriving after the child
            Case {
                stakes: vec![1; 10],
                own: 0,
                parents: vec![0; 6],
                ops: [Op::Own { cslot: 0, kind: VKind::Skip, block: 0 }]
                    .into_iter()
                    .chain((1..5).map(|s| Op::Vote { signer: v(s, 10), cslot: 0, kind: VKind::Notar, block: 0 }))
                    .chain([Op::AddBlock { cslot: 0, block: 0 }])
                    .chain([Op::ParentCert { parent: 0, kind: CKind::FastFinal, mask: 0x3ff, fb: 0 }])
                    .collect(),
            },
        ]
    }
    fn run(&self, case: &Case) -> Outcome {
        run(case)
    }
}

struct World {
    drv: PoolDriver,
    model: PoolModel,
    own: usize,
    registered: BTreeSet<(u64, u64)>,
    /// children whose parent was seen certified (sticky: the pool records it with the child)
    certified: BTreeSet<(u64, u64)>,
    s2n_sent: BTreeSet<(u64, u64)>,
    s2s_sent: BTreeSet<u64>,
    /// own initial vote per child slot: Some(Some(tag)) notar, Some(None) skip
    own_initial: [Option<Option<u64>>; 2],
}

impl World {
    /// Whether the pool holds, right now, a certificate for the parent of the given child.
    fn parent_cert_live(&self, case: &Case, cslot: usize, block: usize, watermark: u64) -> bool {
        let (ps, ptag) = child_parent(case, cslot, block);
        if ps == 0 || ps < watermark {
            return false;
        }
        self.model.slot(ps).is_some_and(|sm| {
            sm.holds_block(CKind::Notar, ptag) || sm.holds_block(CKind::NotarFallback, ptag) || sm.holds_block(CKind::FastFinal, ptag)
        })
    }

    /// "Block and parent known with the parent certified by a certificate the node holds": true
    /// from the first instant at which the child is registered while the node holds a
    /// certificate for its parent (the node then remembers it with the child).
    fn parent_certified(&self, _case: &Case, cslot: usize, block: usize) -> bool {
        self.certified.contains(&(CHILD_SLOTS[cslot], block as u64 + 1))
    }

    /// `wm_before`: pruning watermark before the call. A certificate present before the call must
    /// not have been pruned then; one that arrived during the call was held at that instant.
    fn refresh_certified(&mut self, case: &Case, wm_before: u64, live_before: &BTreeSet<(u64, u64)>) {
        for cs in 0..2 {
            for b in 0..3usize {
                let key = (CHILD_SLOTS[cs], b as u64 + 1);
                if !self.registered.contains(&key) || self.certified.contains(&key) {
                    continue;
                }
                let parent = child_parent(case, cs, b);
                let newly = !live_before.contains(&parent) && self.parent_cert_live(case, cs, b, wm_before);
                if live_before.contains(&parent) || newly {
                    self.certified.insert(key);
                }
            }
        }
    }

    fn s2n_pred(&self, case: &Case, cslot: usize, block: usize) -> bool {
        let slot = CHILD_SLOTS[cslot];
        let tag = block as u64 + 1;
        let Some(initial) = self.own_initial[cslot] else { return false };
        if initial == Some(tag) {
            return false;
        }
        let Some(sm) = self.model.slot(slot) else { return false };
        let notar = sm.notar_voters(tag);
        let skip = sm.skip_voters();
        let total = self.model.total();
        let ns = self.model.stake(&notar);
        let ss = self.model.stake(&skip);
        let stake_ok = ns * 5 >= total * 2 || (ns * 5 >= total && (ns + ss) * 5 >= total * 3);
        stake_ok && self.registered.contains(&(slot, tag)) && self.parent_certified(case, cslot, block)
    }

    fn s2s_pred(&self, cslot: usize) -> bool {
        let slot = CHILD_SLOTS[cslot];
        if !matches!(self.own_initial[cslot], Some(Some(_))) {
            return false;
        }
        let Some(sm) = self.model.slot(slot) else { return false };
        let total = self.model.total();
        let ss = self.model.stake(&sm.skip_voters());
        let notars: Vec<u128> = (1..=3u64).map(|t| self.model.stake(&sm.notar_voters(t))).collect();
        let sum: u128 = notars.iter().sum();
        let top = notars.iter().copied().max().unwrap_or(0);
        (ss + sum - top) * 5 >= total * 2
    }
}

fn run(case: &Case) -> Outcome {
    let mut out = Outcome::default();
    let n = case.stakes.len();
    let own = pick_idx(case.own, n);
    let mut w = World {
        drv: PoolDriver::new(&case.stakes, own),
        model: PoolModel::new(&case.stakes),
        own,
        registered: BTreeSet::new(),
        certified: BTreeSet::new(),
        s2n_sent: BTreeSet::new(),
        s2s_sent: BTreeSet::new(),
        own_initial: [None, None],
    };

    for (step, op) in case.ops.iter().enumerate() {
        let call: CallOutput;
        let trigger: &str;
        let wm_before = w.model.watermark;
        let live_before: BTreeSet<(u64, u64)> = (0..3usize)
            .map(|p| (PARENT_SLOTS[p], PARENT_TAGS[p]))
            .filter(|(ps, ptag)| {
                *ps >= wm_before
                    && w.model.slot(*ps).is_some_and(|sm| {
                        sm.holds_block(CKind::Notar, *ptag) || sm.holds_block(CKind::NotarFallback, *ptag) || sm.holds_block(CKind::FastFinal, *ptag)
                    })
            })
            .collect();
        match op {
            Op::Vote { signer, cslot, kind, block } => {
                let signer = pick_idx(*signer, n);
                if signer == w.own {
                    // own votes go through Op::Own so that their order is a correct node's order
                    continue;
                }
                let spec = VoteSpec { kind: *kind, slot: CHILD_SLOTS[*cslot as usize], block: *block as u64 + 1, signer }.norm();
                let (verdict, c) = w.drv.add_vote(spec);
                if verdict.as_ref().is_some_and(|v| v.is_ok()) {
                    let created = w.model.apply_vote(&spec);
                    let _ = created;
                }
                call = c;
                trigger = "vote";
            }
            Op::Own { cslot, kind, block } => {
                let cs = *cslot as usize;
                let tag = *block as u64 + 1;
                let is_initial = matches!(kind, VKind::Notar | VKind::Skip);
                if is_initial && w.own_initial[cs].is_some() {
                    continue; // a correct node casts one initial vote
                }
                if !is_initial && w.own_initial[cs].is_none() {
                    continue; // fallback votes only after the initial vote
                }
                if *kind == VKind::NotarFallback && w.own_initial[cs] == Some(Some(tag)) {
                    continue; // never notar-fallback for the block it notarised
                }
                let spec = VoteSpec { kind: *kind, slot: CHILD_SLOTS[cs], block: tag, signer: w.own }.norm();
                let (verdict, c) = w.drv.add_vote(spec);
                if verdict.as_ref().is_some_and(|v| v.is_ok()) {
                    w.model.apply_vote(&spec);
                    if is_initial {
                        w.own_initial[cs] = Some(if *kind == VKind::Notar { Some(tag) } else { None });
                    }
                }
                call = c;
                trigger = "own-vote";
            }
            Op::ParentVote { signer, parent, fallback } => {
                let p = *parent as usize % 3;
                let spec = VoteSpec {
                    kind: if *fallback { VKind::NotarFallback } else { VKind::Notar },
                    slot: PARENT_SLOTS[p],
                    block: PARENT_TAGS[p],
                    signer: pick_idx(*signer, n),
                };
                let (verdict, c) = w.drv.add_vote(spec);
                if verdict.as_ref().is_some_and(|v| v.is_ok()) {
                    w.model.apply_vote(&spec);
                }
                call = c;
                trigger = "parent-cert-by-votes";
            }
            Op::ParentCert { parent, kind, mask, fb } => {
                let p = *parent as usize % 3;
                let mut primary: Vec<usize> = (0..n).filter(|i| mask >> i & 1 == 1).collect();
                let mut fallback = Vec::new();
                if *kind == CKind::NotarFallback {
                    fallback = primary.iter().copied().filter(|i| fb >> i & 1 == 1).collect();
                    primary.retain(|i| !fallback.contains(i));
                }
                if primary.is_empty() && (fallback.is_empty() || *kind != CKind::NotarFallback) {
                    continue;
                }
                let all: BTreeSet<usize> = primary.iter().chain(fallback.iter()).copied().collect();
                if !w.model.meets(&all, kind.threshold_fifths()) {
                    continue;
                }
                let spec = CertSpec { kind: *kind, slot: PARENT_SLOTS[p], block: PARENT_TAGS[p], primary, fallback };
                match w.drv.add_cert_spec(&spec) {
                    Ok((verdict, c)) => {
                        if verdict.as_ref().is_some_and(|v| v.is_ok()) {
                            w.model.hold_cert(spec.kind, spec.slot, spec.block);
                        }
                        call = c;
                    }
                    Err(e) => {
                        out.violate("C06/fixture-cert-rejected", format!("step {step} {spec:?}: {e}"));
                        break;
                    }
                }
                trigger = "parent-cert-received";
            }
            Op::AddBlock { cslot, block } => {
                let cs = *cslot as usize;
                let tag = *block as u64 + 1;
                let slot = CHILD_SLOTS[cs];
                let (ps, ptag) = child_parent(case, cs, *block as usize);
                call = w.drv.add_block(bid(slot, tag), bid(ps, ptag));
                w.registered.insert((slot, tag));
                trigger = "block";
            }
        }
        if let Some(p) = &call.panic {
            if is_safety_panic(p) {
                out.label("ended=unsafe-input");
                break;
            }
            out.violate(format!("C06/panic/{}/{}", panic_site(p), panic_msg(p)), format!("step {step} {op:?}: {p}"));
            break;
        }
        // keep the certificate view in sync with what the pool announced (votes may have formed
        // parent certificates; child-slot certificates only matter for finalisation)
        for e in &call.events {
            if let PoolEvent::CertCreated(c) = e {
                let kind = crate::fixtures::votes::cert_kind(c);
                let tag = c
                    .block_hash()
                    .map(|h| [1u64, 2, 3, 10, 11].into_iter().find(|t| &block_hash(*t) == h).unwrap_or(99))
                    .unwrap_or(0);
                if !w.model.slot(c.slot().inner()).is_some_and(|sm| if kind == CKind::NotarFallback { sm.holds_block(kind, tag) } else { sm.holds(kind) }) {
                    // C03 checks creation; here the model just follows the pool for certificates
                    w.model.hold_cert(kind, c.slot().inner(), tag);
                }
            }
        }
        w.refresh_certified(case, wm_before, &live_before);
        if CHILD_SLOTS.iter().any(|s| w.model.slot(*s).is_some_and(|sm| sm.finalized_block().is_some())) {
            out.label("ended=child-slot-finalised");
            break;
        }

        // --- the oracle: events of this call == predicates newly true
        let mut got_s2n: Vec<(u64, u64)> = Vec::new();
        let mut got_s2s: Vec<u64> = Vec::new();
        for e in &call.events {
            match e {
                PoolEvent::SafeToNotar((slot, hash)) => {
                    let tag = (1..=3u64).find(|t| &block_hash(*t) == hash).unwrap_or(99);
                    got_s2n.push((slot.inner(), tag));
                }
                PoolEvent::SafeToSkip(slot) => got_s2s.push(slot.inner()),
                _ => {}
            }
        }
        for cs in 0..2 {
            let slot = CHILD_SLOTS[cs];
            for b in 0..3usize {
                let key = (slot, b as u64 + 1);
                let pred = w.s2n_pred(case, cs, b);
                let emitted = got_s2n.iter().filter(|k| **k == key).count();
                out.checks += 1;
                if emitted > 1 || (emitted == 1 && w.s2n_sent.contains(&key)) {
                    out.violate("C06/safe-to-notar/signalled-twice", format!("step {step} {op:?}: block {key:?}"));
                } else if emitted == 1 && !pred {
                    out.violate("C06/safe-to-notar/signalled-without-conditions", format!("step {step} {op:?}: block {key:?}; {}", explain(&w, case, cs, b)));
                } else if emitted == 0 && pred && !w.s2n_sent.contains(&key) {
                    out.violate(
                        format!("C06/safe-to-notar/not-signalled-when-conditions-hold/last={trigger}"),
                        format!("step {step} {op:?}: block {key:?}; {}", explain(&w, case, cs, b)),
                    );
                }
                if emitted >= 1 {
                    w.s2n_sent.insert(key);
                    out.nontrivial = true;
                    out.label(format!("S2N last-trigger={trigger}"));
                }
            }
            let pred = w.s2s_pred(cs);
            let emitted = got_s2s.iter().filter(|s| **s == slot).count();
            out.checks += 1;
            if emitted > 1 || (emitted == 1 && w.s2s_sent.contains(&slot)) {
                out.violate("C06/safe-to-skip/signalled-twice", format!("step {step} {op:?}: slot {slot}"));
            } else if emitted == 1 && !pred {
                out.violate("C06/safe-to-skip/signalled-without-conditions", format!("step {step} {op:?}: slot {slot}; own {:?}", w.own_initial[cs]));
            } else if emitted == 0 && pred && !w.s2s_sent.contains(&slot) {
                out.violate(
                    format!("C06/safe-to-skip/not-signalled-when-conditions-hold/last={trigger}"),
                    format!("step {step} {op:?}: slot {slot}; own {:?}", w.own_initial[cs]),
                );
            }
            if emitted >= 1 {
                w.s2s_sent.insert(slot);
                out.nontrivial = true;
                out.label(format!("S2S last-trigger={trigger}"));
            }
        }
        // events for slots outside the scenario would be unexpected
        for (s, t) in &got_s2n {
            if !CHILD_SLOTS.contains(s) || *t == 99 {
                out.violate("C06/safe-to-notar/unknown-block", format!("step {step}: ({s},{t})"));
            }
        }
        if out.failed() {
            break;
        }
    }
    out
}

fn explain(w: &World, case: &Case, cs: usize, b: usize) -> String {
    let slot = CHILD_SLOTS[cs];
    let tag = b as u64 + 1;
    let sm = w.model.slot(slot);
    let ns = sm.map(|s| w.model.stake(&s.notar_voters(tag))).unwrap_or(0);
    let ss = sm.map(|s| w.model.stake(&s.skip_voters())).unwrap_or(0);
    format!(
        "notar stake {ns}, skip stake {ss}, total {}, own initial vote {:?}, registered {}, parent {:?} certified {}",
        w.model.total(),
        w.own_initial[cs],
        w.registered.contains(&(slot, tag)),
        child_parent(case, cs, b),
        w.parent_certified(case, cs, b)
    )
}
