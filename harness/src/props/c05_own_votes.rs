//! C05 — a correct node's own votes obey the voting rules under every event order.
//!
//! One correct node (real pool + real Votor, paused clock); every other validator is a puppet
//! without any stake restriction. A history monitor judges each vote the node broadcasts against
//! the tapped pool-event stream and the node's earlier votes.

use std::collections::{BTreeMap, BTreeSet};

use alpenglow::BlockId;
use alpenglow::consensus::{AddVoteError, ConsensusMessage, PoolEvent, ValidatedVote, Vote};
use proptest::prelude::*;
use serde::{Deserialize, Serialize};

use crate::engine::{Outcome, Property, Tier, catch, panic_msg, panic_site, pick_idx};
use crate::fixtures::epoch::epoch;
use crate::fixtures::net::with_runtime;
use crate::fixtures::pool_driver::{PoolDriver, bid};
use crate::fixtures::pvsim::{Call, PvNode};
use crate::fixtures::votes::{CKind, CertSpec, VKind, VoteSpec, cert_kind, classify_vote, valid_cert, valid_vote};

#[derive(Clone, Debug, Serialize, Deserialize)]
pub enum Act {
    /// announce block (cursor+dslot, tag) with a parent chosen among earlier announced blocks
    Block { dslot: i8, tag: u8, parent: u16, first_shred: bool },
    FirstShred { dslot: i8 },
    Invalid { dslot: i8 },
    /// puppet votes of one kind by the puppets selected by the mask
    Votes { dslot: i8, kind: VKind, tag: u8, mask: u16 },
    /// received certificate signed by the puppets in the mask
    Cert { dslot: i8, kind: CKind, tag: u8, mask: u16, fb: u16 },
    Wait { ms: u16 },
    Next,
    /// a well-behaved round: block on the current tip, notar votes, final votes by the masks
    Honest { notar_mask: u16, final_mask: u16, late_block: bool },
    /// a contested slot: block b and a rival b' on the tip, puppet notar votes for the rival,
    /// puppet skip votes, and a received notarisation certificate for b, in a generated order
    Contested { rival_mask: u16, skip_mask: u16, order: u8 },
    Standstill,
}

#[derive(Clone, Debug, Serialize, Deserialize)]
pub struct Case {
    pub stakes: Vec<u64>,
    pub own: u16,
    pub seed: u64,
    pub acts: Vec<Act>,
}

pub struct C05;

impl Property for C05 {
    type Case = Case;
    fn id(&self) -> &'static str {
        "C05"
    }
    fn cases(&self, tier: Tier) -> u32 {
        tier.pick(4_000, 120_000)
    }
    fn rule(&self) -> String {
        "cases: 4..=8 validators (equal or small-integer stakes), one correct node, all others puppets with no stake \
         restriction; a generated history over a moving slot cursor: block announcements (several per slot, children before \
         parents, parents in wrong slots), first-shred and invalid-block notices, puppet votes of all five kinds and received \
         certificates of all five types for slots around the cursor, well-behaved rounds (block on the tip, notar votes, \
         final votes) that drive finalisation, window changes and pruning, virtual-time waits of 0..1.5 s that fire the \
         crashed-leader and slot timeouts, standstill triggers. Oracle (monitor over the votes the node broadcasts, with \
         the tapped pool events as context): at most one initial vote per slot; notar only with an acceptable parent \
         (ParentReady announced for a window's first slot, else the block it notarised in the previous slot); final only \
         for the notarised block after its notarisation certificate and never together with skip / skip-fallback / \
         notar-fallback (either order); fallback votes only after the matching safe-to event and after the initial vote; \
         every vote carries the node's index and a valid signature; replaying its votes into a fresh pool in two orders is \
         never slashable; the voting task never dies. Non-trivial: the node cast a fallback or a final vote."
            .into()
    }
    fn assumptions(&self) -> Vec<String> {
        vec![
            "puppets may exceed 20 % of the stake, so the pool's own safety assertions can fire on contradictory certificates; such cases end without verdict".into(),
            "paused single-thread runtime; select! branch order seeded per case".into(),
        ]
    }
    fn strategy(&self, _tier: Tier) -> BoxedStrategy<Case> {
        let stakes = prop_oneof![2 => (4usize..=8).prop_map(|n| vec![1u64; n]), 1 => prop::collection::vec(1u64..=3, 4..=8)];
        let dslot = prop_oneof![5 => Just(0i8), 2 => Just(1i8), 1 => Just(-1i8), 1 => Just(2i8), 1 => Just(-2i8)];
        let vk = prop_oneof![4 => Just(VKind::Notar), 2 => Just(VKind::NotarFallback), 3 => Just(VKind::Skip), 2 => Just(VKind::SkipFallback), 3 => Just(VKind::Final)];
        let ck = prop_oneof![Just(CKind::Notar), Just(CKind::NotarFallback), Just(CKind::Skip), Just(CKind::FastFinal), Just(CKind::Final)];
        let dense = (any::<u16>(), any::<u16>()).prop_map(|(a, b)| a | b);
        let act = prop_oneof![
            5 => (dslot.clone(), 0u8..3, any::<u16>(), any::<bool>()).prop_map(|(dslot, tag, parent, first_shred)| Act::Block { dslot, tag, parent, first_shred }),
            1 => dslot.clone().prop_map(|dslot| Act::FirstShred { dslot }),
            1 => dslot.clone().prop_map(|dslot| Act::Invalid { dslot }),
            9 => (dslot.clone(), vk, 0u8..3, dense.clone()).prop_map(|(dslot, kind, tag, mask)| Act::Votes { dslot, kind, tag, mask }),
            3 => (dslot, ck, 0u8..3, dense.clone(), any::<u16>()).prop_map(|(dslot, kind, tag, mask, fb)| Act::Cert { dslot, kind, tag, mask, fb }),
            4 => prop_oneof![0u16..200, 300u16..500, 700u16..1500].prop_map(|ms| Act::Wait { ms }),
            4 => Just(Act::Next),
            8 => (dense.clone(), dense, prop::bool::weighted(0.2)).prop_map(|(notar_mask, final_mask, late_block)| Act::Honest { notar_mask, final_mask, late_block }),
            1 => Just(Act::Standstill),
            5 => (any::<u16>(), any::<u16>(), 0u8..120).prop_map(|(rival_mask, skip_mask, order)| Act::Contested { rival_mask, skip_mask, order }),
        ];
        (stakes, any::<u16>(), any::<u64>(), prop::collection::vec(act, 1..70))
            .prop_map(|(stakes, own, seed, acts)| Case { stakes, own, seed, acts })
            .boxed()
    }
    fn max_shrink_iters(&self) -> u32 {
        300
    }
    fn run(&self, case: &Case) -> Outcome {
        match catch(|| with_runtime(true, case.seed, run(case))) {
            Ok(o) => o,
            Err(p) => {
                let mut o = Outcome::default();
                o.violate(format!("C05/panic/{}/{}", panic_site(&p), panic_msg(&p)), p);
                o
            }
        }
    }
}

#[derive(Default)]
struct Monitor {
    /// per slot: own initial vote (Some(tag) = notar, None = skip)
    initial: BTreeMap<u64, Option<u64>>,
    nf: BTreeMap<u64, BTreeSet<u64>>,
    sf: BTreeSet<u64>,
    fin: BTreeSet<u64>,
    all: Vec<VoteSpec>,
}

fn tag_of_hash(h: &alpenglow::crypto::merkle::BlockHash, registry: &BTreeMap<(u64, u64), (u64, u64)>) -> u64 {
    if h == &alpenglow::crypto::merkle::GENESIS_BLOCK_HASH {
        return 0;
    }
    registry.keys().map(|k| k.1).find(|t| &crate::fixtures::block_hash(*t) == h).unwrap_or(u64::MAX)
}

async fn run(case: &Case) -> Outcome {
    let mut out = Outcome::default();
    let n = case.stakes.len();
    let own = pick_idx(case.own, n);
    let ep = epoch(&case.stakes);
    let mut node = PvNode::new(&case.stakes, own);
    let puppets: Vec<usize> = (0..n).filter(|i| *i != own).collect();
    let mut registry: BTreeMap<(u64, u64), (u64, u64)> = BTreeMap::new();
    let mut cursor: u64 = 1;
    let mut tip: (u64, u64) = (0, 0);
    let mut mon = Monitor::default();
    let total: u128 = case.stakes.iter().map(|s| *s as u128).sum();

    macro_rules! bail_on {
        ($call:expr, $what:expr) => {
            match $call {
                Call::Done(v) => Some(v),
                Call::Panicked(p) => {
                    if p.contains("consensus safety violation") {
                        out.label("ended=unsafe-puppet-input");
                    } else {
                        out.violate(format!("C05/pool-panic/{}/{}", panic_site(&p), panic_msg(&p)), format!("{}: {p}", $what));
                    }
                    None
                }
            }
        };
    }

    'acts: for (step, act) in case.acts.iter().enumerate() {
        node.step = step;
        let slot_of = |d: i8| -> u64 { (cursor as i64 + d as i64).max(1) as u64 };
        match act {
            Act::Next => cursor += 1,
            Act::Wait { ms } => node.sleep(*ms as u64).await,
            Act::FirstShred { dslot } => node.first_shred(slot_of(*dslot)).await,
            Act::Invalid { dslot } => node.invalid_block(slot_of(*dslot)).await,
            Act::Standstill => {
                if bail_on!(node.standstill().await, "standstill").is_none() {
                    break 'acts;
                }
            }
            Act::Block { dslot, tag, parent, first_shred } => {
                let slot = slot_of(*dslot);
                let t = slot * 10 + *tag as u64 + 1;
                let p = if let Some(p) = registry.get(&(slot, t)) {
                    *p
                } else {
                    // candidates: genesis, any announced block in an earlier slot, the tip (favoured)
                    let mut cands: Vec<(u64, u64)> = vec![(0, 0)];
                    cands.extend(registry.keys().filter(|k| k.0 < slot).copied());
                    if tip.0 < slot {
                        cands.push(tip);
                        cands.push(tip);
                    }
                    let c = cands[pick_idx(*parent, cands.len())];
                    registry.insert((slot, t), c);
                    c
                };
                if bail_on!(node.block(bid(slot, t), bid(p.0, p.1), *first_shred).await, "add_block").is_none() {
                    break 'acts;
                }
            }
            Act::Votes { dslot, kind, tag, mask } => {
                let slot = slot_of(*dslot);
                for (j, v) in puppets.iter().enumerate() {
                    if mask >> j & 1 == 0 {
                        continue;
                    }
                    let spec = VoteSpec { kind: *kind, slot, block: slot * 10 + *tag as u64 + 1, signer: *v }.norm();
                    if bail_on!(node.add_vote(valid_vote(spec, &ep)).await, "add_vote").is_none() {
                        break 'acts;
                    }
                }
            }
            Act::Cert { dslot, kind, tag, mask, fb } => {
                let slot = slot_of(*dslot);
                let mut primary: Vec<usize> = puppets.iter().enumerate().filter(|(j, _)| mask >> j & 1 == 1).map(|(_, v)| *v).collect();
                let mut fallback = Vec::new();
                if matches!(kind, CKind::NotarFallback | CKind::Skip) {
                    fallback = primary.iter().copied().enumerate().filter(|(j, _)| fb >> j & 1 == 1).map(|(_, v)| v).collect();
                    primary.retain(|v| !fallback.contains(v));
                }
                let stake: u128 = primary.iter().chain(fallback.iter()).map(|v| case.stakes[*v] as u128).sum();
                if stake * 5 < total * kind.threshold_fifths() || (primary.is_empty() && !matches!(kind, CKind::NotarFallback | CKind::Skip)) || (primary.is_empty() && fallback.is_empty()) {
                    continue;
                }
                let spec = CertSpec { kind: *kind, slot, block: slot * 10 + *tag as u64 + 1, primary, fallback };
                let Ok(vc) = valid_cert(&spec, &ep) else { continue };
                if bail_on!(node.add_cert(vc).await, "add_cert").is_none() {
                    break 'acts;
                }
            }
            Act::Contested { rival_mask, skip_mask, order } => {
                let slot = cursor;
                let (tb, tr) = (slot * 10 + 1, slot * 10 + 2);
                let parent = if tip.0 < slot { tip } else { (0, 0) };
                registry.entry((slot, tb)).or_insert(parent);
                registry.entry((slot, tr)).or_insert(parent);
                let pb = registry[&(slot, tb)];
                let pr = registry[&(slot, tr)];
                // the order-th permutation of the five steps
                let mut steps: Vec<u8> = vec![0, 1, 2, 3, 4];
                let mut k = *order as usize;
                let mut perm = Vec::new();
                for f in (1..=5usize).rev() {
                    perm.push(steps.remove(k % f));
                    k /= f;
                }
                for st in perm {
                    match st {
                        0 => {
                            if bail_on!(node.block(bid(slot, tb), bid(pb.0, pb.1), true).await, "add_block").is_none() {
                                break 'acts;
                            }
                        }
                        1 => {
                            // the rival reaches the node through repair (pool registration, block notice)
                            if bail_on!(node.block(bid(slot, tr), bid(pr.0, pr.1), false).await, "add_block").is_none() {
                                break 'acts;
                            }
                        }
                        2 | 3 => {
                            let (kind, mask, tag) = if st == 2 { (VKind::Notar, rival_mask, tr) } else { (VKind::Skip, skip_mask, 0) };
                            for (j, v) in puppets.iter().enumerate() {
                                // a puppet casts one initial vote in this template
                                let votes_rival = rival_mask >> j & 1 == 1;
                                if mask >> j & 1 == 0 || (st == 3 && votes_rival) {
                                    continue;
                                }
                                let spec = VoteSpec { kind, slot, block: tag, signer: *v }.norm();
                                if bail_on!(node.add_vote(valid_vote(spec, &ep)).await, "add_vote").is_none() {
                                    break 'acts;
                                }
                            }
                        }
                        _ => {
                            let primary: Vec<usize> = puppets.clone();
                            let stake: u128 = primary.iter().map(|v| case.stakes[*v] as u128).sum();
                            if stake * 5 >= total * 3 {
                                let spec = CertSpec { kind: CKind::Notar, slot, block: tb, primary, fallback: vec![] };
                                if let Ok(vc) = valid_cert(&spec, &ep)
                                    && bail_on!(node.add_cert(vc).await, "add_cert").is_none()
                                {
                                    break 'acts;
                                }
                            }
                        }
                    }
                    if !monitor(&mut node, &mut mon, &registry, &ep, own, &mut out, step).await {
                        break 'acts;
                    }
                }
                tip = (slot, tb);
                cursor += 1;
            }
            Act::Honest { notar_mask, final_mask, late_block } => {
                let slot = cursor;
                let t = slot * 10 + 1;
                let p = *registry.entry((slot, t)).or_insert(if tip.0 < slot { tip } else { (0, 0) });
                let announce_first = !*late_block;
                if announce_first && bail_on!(node.block(bid(slot, t), bid(p.0, p.1), true).await, "add_block").is_none() {
                    break 'acts;
                }
                for (phase, (kind, mask)) in [(VKind::Notar, notar_mask), (VKind::Final, final_mask)].into_iter().enumerate() {
                    for (j, v) in puppets.iter().enumerate() {
                        if mask >> j & 1 == 0 {
                            continue;
                        }
                        let spec = VoteSpec { kind, slot, block: t, signer: *v }.norm();
                        if bail_on!(node.add_vote(valid_vote(spec, &ep)).await, "add_vote").is_none() {
                            break 'acts;
                        }
                    }
                    if phase == 0 && !announce_first && bail_on!(node.block(bid(slot, t), bid(p.0, p.1), true).await, "add_block").is_none() {
                        break 'acts;
                    }
                    if !monitor(&mut node, &mut mon, &registry, &ep, own, &mut out, step).await {
                        break 'acts;
                    }
                }
                tip = (slot, t);
                cursor += 1;
            }
        }
        if !monitor(&mut node, &mut mon, &registry, &ep, own, &mut out, step).await {
            break;
        }
    }

    // R6: the node's own votes are never a slashable combination, in any arrival order
    if !out.failed() && !mon.all.is_empty() {
        for rev in [false, true] {
            let mut fresh = PoolDriver::new(&case.stakes, (own + 1) % n);
            let mut votes = mon.all.clone();
            if rev {
                votes.reverse();
            }
            for v in votes {
                let (verdict, call) = fresh.add_vote(v);
                if call.panic.is_some() {
                    break;
                }
                out.checks += 1;
                if let Some(Err(AddVoteError::Slashable(o))) = verdict {
                    out.violate("C05/own-votes-slashable", format!("replaying the node's votes ({}) into a fresh pool: {v:?} reported as {o}", if rev { "reverse order" } else { "emission order" }));
                    break;
                }
            }
        }
    }
    let fallback_cast = mon.nf.values().any(|s| !s.is_empty()) || !mon.sf.is_empty();
    out.nontrivial = fallback_cast || !mon.fin.is_empty();
    if fallback_cast {
        out.label("cast-fallback-vote");
    }
    if !mon.fin.is_empty() {
        out.label("cast-final-vote");
    }
    if mon.initial.values().any(|v| v.is_none()) {
        out.label("cast-skip-vote");
    }
    node.votor_task.abort();
    out
}

/// Judges everything the node broadcast since the last call; loops its votes back into its pool.
async fn monitor(
    node: &mut PvNode,
    mon: &mut Monitor,
    registry: &BTreeMap<(u64, u64), (u64, u64)>,
    ep: &alpenglow::consensus::EpochInfo,
    own: usize,
    out: &mut Outcome,
    step: usize,
) -> bool {
    for _round in 0..8 {
        if let Some(p) = node.votor_dead() {
            out.violate(format!("C05/voting-task-died/{}/{}", panic_site(&p), panic_msg(&p)), format!("step {step}: {p}"));
            return false;
        }
        let msgs = node.take_broadcasts();
        if msgs.is_empty() {
            return true;
        }
        for m in msgs {
            let ConsensusMessage::Vote(v) = m else { continue };
            let c = classify_vote(&v);
            let slot = c.slot;
            let tag = c.hash.as_ref().map(|h| tag_of_hash(h, registry)).unwrap_or(0);
            out.checks += 1;
            // R5: own index, valid signature
            if c.signer != own {
                out.violate("C05/vote-with-foreign-index", format!("step {step}: {v:?}"));
                return false;
            }
            let Ok(vv) = ValidatedVote::try_new(v.clone(), ep) else {
                out.violate("C05/vote-signature-invalid", format!("step {step}: {v:?}"));
                return false;
            };
            // standstill recovery re-broadcasts earlier votes verbatim: not a new vote
            let this = VoteSpec { kind: c.kind, slot, block: tag, signer: own }.norm();
            if mon.all.contains(&this) {
                continue;
            }
            let seen = |pred: &dyn Fn(&PoolEvent) -> bool| node.events.iter().any(|(_, e)| pred(e));
            match c.kind {
                VKind::Notar | VKind::Skip => {
                    if mon.initial.contains_key(&slot) {
                        out.violate("C05/second-initial-vote", format!("step {step}: {:?} {slot} after initial vote {:?}", c.kind, mon.initial[&slot]));
                        return false;
                    }
                    if mon.fin.contains(&slot) && c.kind == VKind::Skip {
                        out.violate("C05/skip-after-final", format!("step {step}: slot {slot}"));
                        return false;
                    }
                    if c.kind == VKind::Notar {
                        let Some(parent) = registry.get(&(slot, tag)).copied() else {
                            out.violate("C05/notarised-unannounced-block", format!("step {step}: slot {slot}"));
                            return false;
                        };
                        if slot % 4 == 0 {
                            let pid: BlockId = bid(parent.0, parent.1);
                            let ok = seen(&|e| matches!(e, PoolEvent::ParentReady { slot: s, parent: p } if s.inner() == slot && p == &pid));
                            if !ok {
                                out.violate("C05/notar/first-slot-parent-not-announced-ready", format!("step {step}: notarised ({slot},{tag}) with parent {parent:?} for which no ParentReady({slot}, ·) was announced"));
                                return false;
                            }
                        } else {
                            let prev_ok = parent.0 + 1 == slot && (parent.0 == 0 || mon.initial.get(&parent.0) == Some(&Some(parent.1)));
                            if !prev_ok {
                                out.violate("C05/notar/parent-not-the-block-notarised-in-previous-slot", format!("step {step}: notarised ({slot},{tag}) with parent {parent:?}; own vote in slot {}: {:?}", slot - 1, mon.initial.get(&(slot - 1))));
                                return false;
                            }
                        }
                        mon.initial.insert(slot, Some(tag));
                    } else {
                        mon.initial.insert(slot, None);
                    }
                }
                VKind::Final => {
                    let notarised_own = mon.initial.get(&slot).copied().flatten();
                    let Some(b) = notarised_own else {
                        out.violate("C05/final-without-own-notar", format!("step {step}: slot {slot}, own initial vote {:?}", mon.initial.get(&slot)));
                        return false;
                    };
                    let h = crate::fixtures::block_hash(b);
                    let cert_seen = seen(&|e| matches!(e, PoolEvent::CertCreated(c) if cert_kind(c) == CKind::Notar && c.slot().inner() == slot && c.block_hash() == Some(&h)));
                    if !cert_seen {
                        out.violate("C05/final-before-notarisation-certificate", format!("step {step}: slot {slot} block {b}"));
                        return false;
                    }
                    if mon.sf.contains(&slot) || mon.nf.get(&slot).is_some_and(|s| !s.is_empty()) {
                        out.violate("C05/final-after-fallback-vote", format!("step {step}: slot {slot}"));
                        return false;
                    }
                    if !mon.fin.insert(slot) {
                        out.violate("C05/second-final-vote", format!("step {step}: slot {slot}"));
                        return false;
                    }
                }
                VKind::NotarFallback => {
                    let pid: BlockId = bid(slot, tag);
                    if !seen(&|e| matches!(e, PoolEvent::SafeToNotar(b) if b == &pid)) {
                        out.violate("C05/notar-fallback-without-safe-to-notar", format!("step {step}: ({slot},{tag})"));
                        return false;
                    }
                    if !mon.initial.contains_key(&slot) {
                        out.violate("C05/fallback-before-initial-vote", format!("step {step}: notar-fallback in slot {slot}"));
                        return false;
                    }
                    if mon.fin.contains(&slot) {
                        out.violate("C05/fallback-after-final", format!("step {step}: notar-fallback in slot {slot}"));
                        return false;
                    }
                    if mon.initial.get(&slot) == Some(&Some(tag)) {
                        out.violate("C05/notar-fallback-for-own-notarised-block", format!("step {step}: ({slot},{tag})"));
                        return false;
                    }
                    mon.nf.entry(slot).or_default().insert(tag);
                }
                VKind::SkipFallback => {
                    if !seen(&|e| matches!(e, PoolEvent::SafeToSkip(s) if s.inner() == slot)) {
                        out.violate("C05/skip-fallback-without-safe-to-skip", format!("step {step}: slot {slot}"));
                        return false;
                    }
                    if !mon.initial.contains_key(&slot) {
                        out.violate("C05/fallback-before-initial-vote", format!("step {step}: skip-fallback in slot {slot}"));
                        return false;
                    }
                    if mon.fin.contains(&slot) {
                        out.violate("C05/fallback-after-final", format!("step {step}: skip-fallback in slot {slot}"));
                        return false;
                    }
                    mon.sf.insert(slot);
                }
            }
            mon.all.push(VoteSpec { kind: c.kind, slot, block: tag, signer: own }.norm());
            // loop-back: the node's own vote reaches its own pool
            match node.add_vote(vv).await {
                Call::Done(_) => {}
                Call::Panicked(p) => {
                    if !p.contains("consensus safety violation") {
                        out.violate(format!("C05/pool-panic/{}/{}", panic_site(&p), panic_msg(&p)), format!("own vote loop-back: {p}"));
                    } else {
                        out.label("ended=unsafe-puppet-input");
                    }
                    return false;
                }
            }
        }
    }
    true
}
