pub mod c03_certs;
pub mod c04_admission;
pub mod c06_safe_to;
pub mod c07_parent_ready;
pub mod c08_finality;
pub mod c15_merkle;
pub mod c18_standstill;
pub mod world_run;
