pub mod c03_certs;
pub mod c04_admission;
pub mod c06_safe_to;
pub mod c15_merkle;
