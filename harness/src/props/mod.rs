pub mod c15_merkle;
