//! C18 — standstill recovery re-broadcasts a bundle sufficient to catch up, at any time.

use proptest::prelude::*;

use super::world_run::{Focus, Runner};
use crate::engine::{Outcome, Property, Tier};
use crate::fixtures::world::{Fin, WOp, WorldCase, world_strategy};

pub struct C18;

impl Property for C18 {
    type Case = WorldCase;
    fn id(&self) -> &'static str {
        "C18"
    }
    fn cases(&self, tier: Tier) -> u32 {
        tier.pick(2_500, 80_000)
    }
    fn rule(&self) -> String {
        "cases: consistent worlds (2..=5 windows; finalisation fast / slow / both; off-chain certified blocks incl. several \
         notar-fallback certificates per slot; gaps) delivered to a pool as certificates, votes (own votes included) and \
         links in generated order, with standstill recovery triggered at generated points (also before anything is \
         finalised, and on the empty history). Oracle per trigger: no panic; exactly one bundle for slot finalized+1; it \
         proves the highest finalised slot (fast-final, or final + notar); contains every certificate the pool reported for \
         later slots and every accepted own vote for later slots, nothing invented; every element validates at a receiver; \
         a fresh pool (other identity) fed only the bundle reaches the same finalized_slot() and the same parents_ready for \
         the following window; a real Votor that has already seen a final certificate two windows ahead re-broadcasts \
         every element. Non-trivial: finalised beyond genesis and >= 1 later certificate or own vote in the bundle."
            .into()
    }
    fn assumptions(&self) -> Vec<String> {
        vec!["worlds are histories < 20 % Byzantine stake can produce".into()]
    }
    fn strategy(&self, _tier: Tier) -> BoxedStrategy<WorldCase> {
        world_strategy(5, true)
    }
    fn max_shrink_iters(&self) -> u32 {
        400
    }
    fn regressions(&self) -> Vec<WorldCase> {
        vec![
            // defect Q: recovery on a fresh pool
            WorldCase { stakes: vec![1; 4], own: 0, chain_len: vec![1, 1], fin: vec![Fin::No], extras: vec![], ghosts: vec![], seed: 0, spread: 2, ops: vec![WOp::Standstill] },
        ]
    }
    fn run(&self, case: &WorldCase) -> Outcome {
        let mut r = Runner::new(case);
        let mut triggered = false;
        for i in 0..case.ops.len() {
            if matches!(case.ops[i], WOp::Standstill) {
                triggered = true;
            }
            if !r.step(i, "C18", Focus::Standstill) {
                break;
            }
        }
        // always end with a trigger so that every history is judged at least once
        if !r.out.failed() && !triggered {
            let mut c2 = case.clone();
            c2.ops.push(WOp::Standstill);
            let mut r2 = Runner::new(&c2);
            for i in 0..c2.ops.len() {
                if !r2.step(i, "C18", Focus::Standstill) {
                    break;
                }
            }
            return r2.out;
        }
        r.out
    }
}
