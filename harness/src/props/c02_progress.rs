//! C02 — progress: correct leaders' blocks are finalized once the network is timely.
//!
//! Full nodes over the harness network on a paused clock. Before stabilisation every message
//! gets an arbitrary finite delay; afterwards every hop takes at most 0.8 * delta. Bounded
//! progress is then judged from the nodes' pools and from everything seen on the wire.

use std::collections::{BTreeMap, BTreeSet};

use alpenglow::consensus::{Cert, ConsensusMessage};
use proptest::prelude::*;
use serde::{Deserialize, Serialize};

use crate::engine::{Outcome, Property, Tier, catch, panic_msg, panic_site, take_panics};
use crate::fixtures::net::with_runtime;
use crate::fixtures::nsim::{Diss, Iface, SimNode, Switch, advance, start_node};
use crate::fixtures::shreds::ShredParts;
use crate::fixtures::votes::{CKind, VKind, VoteSpec, cert_kind, classify_vote, make_vote};

#[derive(Clone, Debug, Serialize, Deserialize)]
pub struct Case {
    pub stakes: Vec<u64>,
    /// candidate order for crashed and Byzantine(silent or noisy) validators
    pub crash_order: Vec<u8>,
    pub byz_order: Vec<u8>,
    pub turbine_fanout: Option<u8>,
    /// timely phase before the disturbance starts (keeps the chain's first slots, whose parent is
    /// genesis, out of the disturbed phase in most cases — see the known finding)
    pub calm_start_ms: u16,
    pub pre_gst_ms: u16,
    pub chaos_max_ms: u16,
    pub chaos_seed: u64,
    pub post_delay_ms: u8,
    pub windows_after: u8,
    /// after stabilisation, shreds towards this (live) node always take the full 200 ms per hop
    /// while votes stay fast: its blocks complete after the others' certificates arrive
    pub slow_node: Option<u8>,
    pub noisy: bool,
    pub seed: u64,
}

pub struct C02;

impl Property for C02 {
    type Case = Case;
    fn id(&self) -> &'static str {
        "C02"
    }
    fn cases(&self, tier: Tier) -> u32 {
        tier.pick(64, 1_500)
    }
    fn rule(&self) -> String {
        "cases: 4..=7 full nodes' worth of validators with generated stakes, a crashed set and a Byzantine set (silent, or \
         sending validly signed junk votes) each below 20 % of the stake, leaders of both kinds at generated rotation \
         positions, Rotor or Turbine; a pre-stabilisation phase of 0..6 s in which every message gets an arbitrary delay of \
         0..3 s (reordering, no loss), then every hop takes 10..200 ms. Oracle (virtual time): within (windows+2) * 3.5 s \
         after stabilisation every correct node's finalized_slot() has passed the expected window; for windows that start \
         after stabilisation plus 3 s and have a correct leader, none of the four slots is skip-certified and each has a \
         finalisation certificate on the wire; when >= 80 % of the stake is live a fast-finalization certificate \
         for each of them is created by some correct node and held (created or received) by every correct node; no task panics. Windows in which some slice had fewer than 32 \
         shreds sent to live relays are excluded as 'assumption not met' (Rotor's delivery is probabilistic by design). \
         Non-trivial: stabilisation happens after a disturbed phase and >= 2 windows with correct leaders were judged."
            .into()
    }
    fn assumptions(&self) -> Vec<String> {
        vec![
            "'eventually' is replaced by a bound derived from the code's constants (slot 400 ms, crashed-leader timeout 760 ms, hop <= 200 ms)".into(),
            "no message loss (the statement quantifies over finite delays); all node timers (votor, repair expiry, standstill detection) run on the paused clock".into(),
            "hops are kept at <= 0.8 * delta so that a first slice never ties with the crashed-leader timeout".into(),
        ]
    }
    fn strategy(&self, _tier: Tier) -> BoxedStrategy<Case> {
        (
            prop_oneof![2 => (4usize..=7).prop_map(|n| vec![1u64; n]), 2 => prop::collection::vec(1u64..=3, 5..=7)],
            prop::collection::vec(any::<u8>(), 2),
            prop::collection::vec(any::<u8>(), 2),
            prop::option::weighted(0.3, 1u8..8),
            prop_oneof![1 => Just(0u16), 6 => 3000u16..6000],
            prop_oneof![1 => Just(0u16), 3 => 500u16..6000],
            prop_oneof![1 => Just(0u16), 3 => 100u16..3000],
            any::<u64>(),
            10u8..=200,
            (3u8..=5, prop::option::weighted(0.4, any::<u8>())),
            any::<bool>(),
            any::<u64>(),
        )
            .prop_map(|(stakes, crash_order, byz_order, turbine_fanout, calm_start_ms, pre_gst_ms, chaos_max_ms, chaos_seed, post_delay_ms, (windows_after, slow_node), noisy, seed)| Case {
                stakes,
                crash_order,
                byz_order,
                turbine_fanout,
                calm_start_ms,
                pre_gst_ms,
                chaos_max_ms,
                chaos_seed,
                post_delay_ms,
                windows_after,
                slow_node,
                noisy,
                seed,
            })
            .boxed()
    }
    fn max_shrink_iters(&self) -> u32 {
        12
    }
    fn regressions(&self) -> Vec<Case> {
        vec![
            // known finding: split vote on the chain's first block before stabilisation
            Case {
                stakes: vec![2, 2, 1, 3, 2, 1],
                crash_order: vec![219, 22],
                byz_order: vec![250, 229],
                turbine_fanout: None,
                calm_start_ms: 0,
                pre_gst_ms: 1296,
                chaos_max_ms: 1036,
                chaos_seed: 14805818166650063266,
                post_delay_ms: 10,
                windows_after: 5,
                slow_node: None,
                noisy: false,
                seed: 16522751007686301335,
            },
        ]
    }
    fn run(&self, case: &Case) -> Outcome {
        match catch(|| with_runtime(true, case.seed, run(case))) {
            Ok(o) => o,
            Err(p) => {
                let mut o = Outcome::default();
                o.violate(format!("C02/panic/{}/{}", panic_site(&p), panic_msg(&p)), p);
                o
            }
        }
    }
}

fn mixh(a: u64, b: u64) -> u64 {
    let mut z = a ^ b.wrapping_mul(0x9E37_79B9_7F4A_7C15);
    z = (z ^ (z >> 30)).wrapping_mul(0xBF58_476D_1CE4_E5B9);
    z = (z ^ (z >> 27)).wrapping_mul(0x94D0_49BB_1331_11EB);
    z ^ (z >> 31)
}

/// Picks a fault set greedily while its stake stays strictly below 20 %.
pub fn fault_set(order: &[u8], stakes: &[u64], taken: &[bool]) -> Vec<bool> {
    let n = stakes.len();
    let total: u128 = stakes.iter().map(|s| *s as u128).sum();
    let mut set = vec![false; n];
    let mut acc = 0u128;
    for c in order {
        let v = *c as usize % n;
        if !set[v] && !taken[v] && (acc + stakes[v] as u128) * 5 < total {
            set[v] = true;
            acc += stakes[v] as u128;
        }
    }
    set
}

async fn run(case: &Case) -> Outcome {
    let mut out = Outcome::default();
    let n = case.stakes.len();
    let total: u128 = case.stakes.iter().map(|s| *s as u128).sum();
    let crashed = fault_set(&case.crash_order, &case.stakes, &vec![false; n]);
    let byz = fault_set(&case.byz_order, &case.stakes, &crashed);
    let live: Vec<usize> = (0..n).filter(|i| !crashed[*i] && !byz[*i]).collect();
    let live_stake: u128 = live.iter().map(|i| case.stakes[*i] as u128).sum();
    let diss = match case.turbine_fanout {
        Some(f) => Diss::Turbine(f as usize),
        None => Diss::Rotor,
    };
    out.label(format!("{diss:?}").split('(').next().unwrap_or("").to_string());
    out.label(format!("faulty={}", n - live.len()));

    // --- network
    let chaos_seed = case.chaos_seed;
    let chaos_max = case.chaos_max_ms as u64;
    let switch = Switch::new(Box::new(move |_from, _to, _iface, _c| Some(20)));
    switch.record_shreds(true);
    let nodes: Vec<SimNode> = live.iter().map(|i| start_node(&switch, &case.stakes, *i, diss)).collect();

    // --- phase 0: timely start
    let mut t = 0u64;
    let step = 200u64;
    let mut noise_i = 0u64;
    while t < case.calm_start_ms as u64 {
        advance(step).await;
        t += step;
    }
    // --- phase 1: disturbed network
    switch.set_policy(Box::new(move |from, to, _iface, c| Some(if chaos_max == 0 { 5 } else { mixh(chaos_seed, c ^ ((from as u64) << 40) ^ ((to as u64) << 48)) % chaos_max })));
    let disturbed_until = t + case.pre_gst_ms as u64;
    while t < disturbed_until {
        advance(step).await;
        t += step;
        if case.noisy {
            inject_noise(&switch, &byz, &live, t, &mut noise_i);
        }
    }
    // --- stabilisation: from now on every hop takes at most post_delay
    let post = case.post_delay_ms as u64;
    let seed2 = case.chaos_seed ^ 0xABCD;
    let slow = case.slow_node.map(|s| live[s as usize % live.len()]);
    if slow.is_some() {
        out.label("slow-shred-receiver");
    }
    switch.set_policy(Box::new(move |from, to, iface, c| {
        if Some(to) == slow && iface == Iface::Disseminator {
            return Some(200);
        }
        let cap = if slow.is_some() { post.min(30) } else { post };
        Some(1 + mixh(seed2, c ^ ((from as u64) << 40) ^ ((to as u64) << 48)) % cap)
    }));
    // everything still in flight is delivered within chaos_max
    let gst = t + chaos_max;
    let horizon = gst + (case.windows_after as u64 + 2) * 3500 + 3000;
    let fin_at_gst: Vec<u64> = {
        let mut v = Vec::new();
        for nd in &nodes {
            v.push(nd.finalized_slot().await);
        }
        v
    };
    while t < horizon {
        advance(step).await;
        t += step;
        if case.noisy && t < gst + 2000 {
            inject_noise(&switch, &byz, &live, t, &mut noise_i);
        }
        let panics = take_panics();
        if !panics.is_empty() {
            let p = panics.join(" | ");
            out.violate(format!("C02/task-panic/{}/{}", panic_site(&p), panic_msg(&p)), p);
            break;
        }
    }

    if switch.repair_storm() {
        // a repair request storm (recorded under C10) makes the timing verdicts meaningless
        out.label("ended=repair-message-storm");
        for nd in &nodes {
            nd.cancel.cancel();
            nd.task.abort();
        }
        return out;
    }
    // --- judgement
    let log = switch.take_consensus_log();
    let shreds = switch.take_shred_log();
    // first activity time per slot, certificates per slot and sender
    let mut first_vote: BTreeMap<u64, u64> = BTreeMap::new();
    let mut skip_cert: BTreeSet<u64> = BTreeSet::new();
    let mut fin_cert: BTreeSet<u64> = BTreeSet::new();
    let mut fast_from: BTreeMap<u64, BTreeSet<usize>> = BTreeMap::new();
    let mut seen: BTreeSet<(usize, Vec<u8>)> = BTreeSet::new();
    // who holds a fast-finalization certificate per slot: its creator (the sender) and everybody it
    // was delivered to (a node that receives the certificate before it has collected 80 % of the
    // notar votes itself never creates - and hence never broadcasts - one of its own)
    let mut fast_holders: BTreeMap<u64, BTreeSet<usize>> = BTreeMap::new();
    for e in &log {
        if !seen.insert((e.from, e.bytes.to_vec())) {
            // same message to another receiver
            if let Ok(ConsensusMessage::Cert(c)) = alpenglow::network::deserialize::<ConsensusMessage>(&e.bytes)
                && cert_kind(&c) == CKind::FastFinal
            {
                fast_holders.entry(c.slot().inner()).or_default().insert(e.to);
            }
            continue;
        }
        match alpenglow::network::deserialize::<ConsensusMessage>(&e.bytes) {
            Ok(ConsensusMessage::Vote(v)) => {
                let s = v.slot().inner();
                let f = first_vote.entry(s).or_insert(e.t_ms);
                *f = (*f).min(e.t_ms);
            }
            Ok(ConsensusMessage::Cert(c)) => {
                let s = c.slot().inner();
                match cert_kind(&c) {
                    CKind::Skip => {
                        skip_cert.insert(s);
                    }
                    CKind::FastFinal => {
                        fin_cert.insert(s);
                        fast_from.entry(s).or_default().insert(e.from);
                        fast_holders.entry(s).or_default().insert(e.from);
                        fast_holders.entry(s).or_default().insert(e.to);
                    }
                    CKind::Final => {
                        fin_cert.insert(s);
                    }
                    _ => {}
                }
                let _: &Cert = &c;
            }
            Err(_) => {}
        }
    }
    if std::env::var_os("VERIF_DEBUG").is_some() {
        let mut per_slot: BTreeMap<u64, BTreeMap<String, BTreeSet<usize>>> = BTreeMap::new();
        let mut seen2: BTreeSet<(usize, Vec<u8>)> = BTreeSet::new();
        for e in &log {
            if !seen2.insert((e.from, e.bytes.to_vec())) {
                continue;
            }
            match alpenglow::network::deserialize::<ConsensusMessage>(&e.bytes) {
                Ok(ConsensusMessage::Vote(v)) => {
                    let c = classify_vote(&v);
                    per_slot.entry(c.slot).or_default().entry(format!("{}@{}", c.kind.short(), e.t_ms / 100)).or_default().insert(c.signer);
                }
                Ok(ConsensusMessage::Cert(c)) => {
                    per_slot.entry(c.slot().inner()).or_default().entry(format!("cert:{:?}", cert_kind(&c))).or_default().insert(e.from);
                }
                Err(_) => {}
            }
        }
        for (s, m) in per_slot.iter().filter(|(s, _)| std::env::var("VERIF_DEBUG_SLOT").ok().and_then(|v| v.parse::<u64>().ok()).is_none_or(|x| **s + 2 >= x && **s <= x + 1)).take(12) {
            eprintln!("slot {s}: {m:?}");
        }
        eprintln!("gst {gst} shreds logged {}", shreds.len());
    }
    // Rotor assumption guard: per (slot, slice) count distinct shreds the leader handed to live relays
    let mut live_shreds: BTreeMap<(u64, u64), BTreeSet<u64>> = BTreeMap::new();
    let mut all_slices: BTreeSet<(u64, u64)> = BTreeSet::new();
    for (from, to, bytes) in &shreds {
        let Some(p) = ShredParts::parse(bytes) else { continue };
        let leader = (p.slot / 4 % n as u64) as usize;
        if *from != leader {
            continue;
        }
        all_slices.insert((p.slot, p.slice_index));
        if !crashed[*to] && !byz[*to] {
            live_shreds.entry((p.slot, p.slice_index)).or_default().insert(p.shred_index);
        }
    }
    let window_ok = |w: u64| -> bool {
        if matches!(diss, Diss::Turbine(_)) {
            // a Turbine tree with a dead inner node loses a subtree; only fault-free runs are judged
            return live.len() == n;
        }
        all_slices.iter().filter(|(s, _)| s / 4 == w).all(|k| live_shreds.get(k).is_some_and(|s| s.len() >= 32))
    };

    let mut fin_now = Vec::new();
    for nd in &nodes {
        fin_now.push(nd.finalized_slot().await);
    }
    let min_fin = fin_now.iter().copied().min().unwrap_or(0);
    let max_fin_gst = fin_at_gst.iter().copied().max().unwrap_or(0);
    // (a) bounded progress
    let w0 = max_fin_gst / 4 + 1;
    let mut expect_window = w0 + case.windows_after as u64;
    // windows whose Rotor assumption failed may cost an extra timeout each; be generous
    let bad_windows = (w0..=expect_window + 2).filter(|w| !window_ok(*w)).count() as u64;
    expect_window = expect_window.saturating_sub(bad_windows);
    out.checks += 1;
    if !out.failed() && min_fin < expect_window * 4 {
        // known class: a split vote on a block whose parent is genesis can never be resolved,
        // because safe-to-notar requires a certificate for the parent and genesis has none
        let mut sig = "C02/no-progress-after-stabilisation".to_string();
        if min_fin == 0 {
            let mut notar: BTreeMap<u64, u128> = BTreeMap::new();
            let mut skips = 0;
            let mut seen3: BTreeSet<(usize, u64, u8)> = BTreeSet::new();
            for e in &log {
                if let Ok(ConsensusMessage::Vote(v)) = alpenglow::network::deserialize::<ConsensusMessage>(&e.bytes) {
                    let c = classify_vote(&v);
                    if c.slot == 1 && seen3.insert((c.signer, c.slot, c.kind as u8)) {
                        match c.kind {
                            VKind::Notar => *notar.entry(1).or_default() += case.stakes[c.signer] as u128,
                            VKind::Skip => skips += 1,
                            _ => {}
                        }
                    }
                }
            }
            let ns = notar.get(&1).copied().unwrap_or(0);
            if skips > 0 && ns * 5 < total * 3 && !fin_cert.contains(&1) {
                sig = "C02/no-progress-after-stabilisation/split-vote-on-child-of-genesis".to_string();
                if crate::engine::is_known("C02", &sig) {
                    out.excluded_known += 1;
                }
            }
        }
        out.violate(
            sig,
            format!(
                "n={n} live {live:?} (crashed {crashed:?}, byzantine {byz:?}), {diss:?}: after {} virtual ms of timely network the slowest correct node has finalized slot {min_fin} (all: {fin_now:?}); expected at least slot {} (finalized at stabilisation: {fin_at_gst:?})",
                horizon - gst,
                expect_window * 4
            ),
        );
    }
    // (c), (d) blocks of correct leaders in windows that start after stabilisation
    let mut judged = 0;
    if !out.failed() {
        for w in w0.. {
            let first = w * 4;
            if first + 3 > min_fin {
                break;
            }
            let leader = (w % n as u64) as usize;
            if crashed[leader] || byz[leader] {
                continue;
            }
            let Some(t0) = first_vote.get(&first) else { continue };
            if *t0 < gst + 3000 {
                continue;
            }
            if !window_ok(w) {
                out.label("window-excluded=assumption-not-met");
                out.excluded_known += 0;
                continue;
            }
            judged += 1;
            for s in first..first + 4 {
                out.checks += 1;
                if skip_cert.contains(&s) {
                    out.violate("C02/correct-leaders-block-skipped", format!("window {w} (leader {leader}, starts at {t0} ms, stabilisation at {gst} ms): slot {s} was skip-certified; live {live:?}"));
                    break;
                }
                if !fin_cert.contains(&s) && s < min_fin.saturating_sub(4) {
                    out.violate("C02/correct-leaders-block-not-finalised", format!("window {w}: no finalisation certificate for slot {s} although nodes finalised up to {min_fin}"));
                    break;
                }
                // one-round finalisation shows as a fast-final certificate only when no correct node
                // is markedly slower than the rest: otherwise the two-round path of the fastest
                // 60 % legitimately completes first and the slow node never needs to vote
                if live_stake * 5 >= total * 4 && slow.is_none() {
                    let from = fast_from.get(&s).cloned().unwrap_or_default();
                    let holders = fast_holders.get(&s).cloned().unwrap_or_default();
                    if from.is_empty() || !live.iter().all(|v| holders.contains(v)) {
                        out.violate(
                            "C02/no-fast-finalisation-with-80-percent-live",
                            format!("window {w} slot {s}: live stake {live_stake}/{total}; fast-final certificate created by {from:?}, held (created or received) by {holders:?}, live nodes {live:?}"),
                        );
                        break;
                    }
                }
            }
            if out.failed() {
                break;
            }
        }
    }
    out.nontrivial = judged >= 2 && case.pre_gst_ms > 0 && case.chaos_max_ms > 0;
    if case.calm_start_ms == 0 {
        out.label("disturbed-from-genesis");
    }
    if judged >= 2 {
        out.label("judged>=2-windows");
    }
    if live_stake * 5 >= total * 4 {
        out.label("live>=80%");
    }
    out.trace = Some(switch.trace_hash());
    for nd in &nodes {
        nd.cancel.cancel();
        nd.task.abort();
    }
    out
}

fn inject_noise(switch: &std::sync::Arc<Switch>, byz: &[bool], live: &[usize], t: u64, i: &mut u64) {
    let slot = t / 400 + 1;
    for (b, is) in byz.iter().enumerate() {
        if !*is {
            continue;
        }
        *i += 1;
        let kind = [VKind::Skip, VKind::Notar, VKind::NotarFallback, VKind::SkipFallback, VKind::Final][(*i % 5) as usize];
        let spec = VoteSpec { kind, slot: slot + *i % 3, block: 9000 + *i % 4, signer: b }.norm();
        let m = ConsensusMessage::Vote(make_vote(spec));
        let bytes = wincode::serialize(&m).unwrap_or_default();
        for to in live {
            switch.inject(crate::fixtures::nsim::addr(Iface::All2All, *to), bytes.clone());
        }
        let _ = classify_vote;
    }
}
