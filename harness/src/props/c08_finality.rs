//! C08 — per-node finality tracking and pruning are certificate-justified and lossless.

use proptest::prelude::*;

use super::world_run::{Focus, Runner};
use crate::engine::{Outcome, Property, Tier};
use crate::fixtures::votes::CKind;
use crate::fixtures::world::{ExtraSpec, Fin, WOp, WorldCase, world_strategy};

pub struct C08;

impl Property for C08 {
    type Case = WorldCase;
    fn id(&self) -> &'static str {
        "C08"
    }
    fn cases(&self, tier: Tier) -> u32 {
        tier.pick(6_000, 200_000)
    }
    fn rule(&self) -> String {
        "cases: consistent worlds as for C07 (2..=6 windows, chain blocks finalised fast / slow / both, off-chain certified \
         blocks, skipped slots), delivered as certificates or votes plus block links in generated order with duplicates, so \
         that final certificates arrive before notarisation, children before parents, gaps close late and certificates \
         arrive for slots already decided. Oracle after every call: finalized_slot() = highest slot finalised directly by \
         held certificates (monotone); the finalisation log (hook) as a set = direct finalisations + ancestor closure over \
         registered links with the slots in between skipped, each once; pruning watermark = end of the decided prefix \
         (equality: nothing dropped early, nothing kept late); every per-slot container keeps nothing below it; votes and \
         certificates are refused as out of bounds iff below it; queries for retained slots unchanged. Non-trivial: the \
         decided prefix advanced by >= 2 slots in one call (late gap closure) or a certificate arrived for a decided slot."
            .into()
    }
    fn assumptions(&self) -> Vec<String> {
        vec![
            "worlds are histories < 20 % Byzantine stake can produce (one chain; off-chain blocks never reach 80 %)".into(),
            "the model takes the certificates the pool reports holding (creation itself is C03's subject)".into(),
        ]
    }
    fn strategy(&self, _tier: Tier) -> BoxedStrategy<WorldCase> {
        world_strategy(6, false)
    }
    fn max_shrink_iters(&self) -> u32 {
        500
    }
    fn regressions(&self) -> Vec<WorldCase> {
        vec![
            // defect D: FastFinal(2) then Final(2), later the gap at slot 1 closes
            WorldCase {
                stakes: vec![1; 5],
                own: 0,
                chain_len: vec![3, 2],
                fin: vec![Fin::Fast, Fin::Both, Fin::Fast, Fin::No, Fin::Fast],
                extras: vec![], ghosts: vec![],
                seed: 3,
                spread: 1000,
                ops: (0..60u32).map(|k| match k % 4 { 0 => WOp::Link((k * 997) as u16), _ => WOp::Cert(((k * 7919 + 31) % 65536) as u16) }).collect(),
            },
            // late notarisation of an off-chain block in a slot already skipped through a
            // finalisation, while a gap below is still unresolved
            WorldCase {
                stakes: vec![1; 5],
                own: 0,
                chain_len: vec![2, 0, 1],
                fin: vec![Fin::No, Fin::No, Fin::Fast],
                extras: vec![ExtraSpec { slot: 20000, parent: 0, notar: true }, ExtraSpec { slot: 40000, parent: 0, notar: true }, ExtraSpec { slot: 60000, parent: 0, notar: true }], ghosts: vec![],
                seed: 5,
                spread: 1000,
                ops: vec![
                    WOp::CertFor(8, CKind::FastFinal),
                    WOp::LinkFor(8),
                    WOp::CertFor(3, CKind::Notar),
                    WOp::CertFor(4, CKind::Notar),
                    WOp::CertFor(5, CKind::Notar),
                    WOp::CertFor(6, CKind::Notar),
                    WOp::CertFor(7, CKind::Notar),
                    WOp::LinkFor(2),
                    WOp::LinkFor(1),
                    WOp::CertFor(8, CKind::Notar),
                ],
            },
        ]
    }
    fn run(&self, case: &WorldCase) -> Outcome {
        let mut r = Runner::new(case);
        for i in 0..case.ops.len() {
            if !r.step(i, "C08", Focus::Finality) {
                break;
            }
        }
        let mut out = std::mem::take(&mut r.out);
        if r.late_gap_closed {
            out.label("late-gap-closure");
        }
        if r.cert_for_decided {
            out.label("certificate-for-decided-slot");
        }
        if r.max_finalized > 0 {
            out.label("finalised-something");
        }
        out.nontrivial = r.late_gap_closed || (r.cert_for_decided && r.max_finalized > 0);
        out
    }
}
