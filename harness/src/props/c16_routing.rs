//! C16 — all nodes agree on shred routing, so fault-free dissemination reaches everyone.

use std::cell::RefCell;
use std::collections::BTreeMap;
use std::net::SocketAddr;
use std::sync::Arc;

use alpenglow::consensus::{EpochInfo, ValidatorEpochInfo};
use alpenglow::disseminator::rotor::sampling_strategy::{FaitAccompli1Sampler, PartitionSampler, SamplingStrategy, StakeWeightedSampler};
use alpenglow::disseminator::rotor::IidQuorumSampler;
use alpenglow::disseminator::{Disseminator, Rotor, TrivialDisseminator, Turbine};
use alpenglow::network::Network;
use alpenglow::shredder::{RegularShredder, Shred, Shredder};
use alpenglow::types::Slot;
use alpenglow::{ValidatorIndex, ValidatorInfo};
use proptest::prelude::*;
use serde::{Deserialize, Serialize};

use crate::engine::{Outcome, Property, Tier, catch, is_known, panic_msg};
use crate::fixtures::shreds::make_slice;
use crate::fixtures::{block_on, keys};

#[derive(Clone, Copy, Debug, PartialEq, Eq, Serialize, Deserialize)]
pub enum Proto {
    RotorDefault,
    RotorFa1,
    RotorWithSampler,
    Turbine,
    Trivial,
}

#[derive(Clone, Debug, Serialize, Deserialize)]
pub struct Case {
    pub proto: Proto,
    pub stakes: Vec<u32>,
    pub fanout: u8,
    /// (slot, slice, shred) triples
    pub triples: Vec<(u64, u16, u8)>,
    /// set A: warm the caches with these triples under another sampler / fanout first, then swap
    pub swap_after_warmup: bool,
}

thread_local! {
    static SINK: RefCell<Vec<SocketAddr>> = const { RefCell::new(Vec::new()) };
}

/// Network whose sends are recorded in a thread-local sink (all nodes of a case live on one thread).
pub struct SinkNet;

impl Network for SinkNet {
    type Send = Shred;
    type Recv = Shred;
    async fn send(&self, _m: &Shred, addr: SocketAddr) -> std::io::Result<()> {
        SINK.with(|s| s.borrow_mut().push(addr));
        Ok(())
    }
    async fn send_to_many(&self, _m: &Shred, addrs: impl IntoIterator<Item = SocketAddr> + Send) -> std::io::Result<()> {
        let v: Vec<_> = addrs.into_iter().collect();
        SINK.with(|s| s.borrow_mut().extend(v));
        Ok(())
    }
    async fn receive(&self) -> std::io::Result<Shred> {
        std::future::pending().await
    }
}

fn infos(stakes: &[u32]) -> Vec<ValidatorInfo> {
    let k = keys();
    stakes
        .iter()
        .enumerate()
        .map(|(i, s)| ValidatorInfo {
            id: ValidatorIndex::new(i as u64),
            // scaled so that the partition fallback of new_fa1 stays clear of its known empty-bin panic
            stake: alpenglow::Stake::new((*s as u64).max(1) * 1_000),
            pubkey: k.sig[i % 64].to_pk(),
            voting_pubkey: k.vote[i % 64].to_pk(),
            all2all_address: alpenglow::network::localhost_ip_sockaddr(1000 + i as u16),
            disseminator_address: alpenglow::network::localhost_ip_sockaddr(2000 + i as u16),
            repair_requester_address: alpenglow::network::localhost_ip_sockaddr(3000 + i as u16),
            repair_responder_address: alpenglow::network::localhost_ip_sockaddr(4000 + i as u16),
        })
        .collect()
}

enum Node {
    R(Rotor<SinkNet, IidQuorumSampler<StakeWeightedSampler>>),
    F(Rotor<SinkNet, FaitAccompli1Sampler<PartitionSampler>>),
    T(Turbine<SinkNet>),
    V(TrivialDisseminator<SinkNet>),
}

fn call<D: Disseminator>(d: &D, shred: &Shred, as_leader: bool) -> Vec<SocketAddr> {
    SINK.with(|s| s.borrow_mut().clear());
    let r = if as_leader { block_on(d.send(shred)) } else { block_on(d.forward(shred)) };
    r.expect("recording network never fails");
    SINK.with(|s| std::mem::take(&mut *s.borrow_mut()))
}

impl Node {
    fn route(&self, shred: &Shred, as_leader: bool) -> Vec<usize> {
        let addrs = match self {
            Node::R(d) => call(d, shred, as_leader),
            Node::F(d) => call(d, shred, as_leader),
            Node::T(d) => call(d, shred, as_leader),
            Node::V(d) => call(d, shred, as_leader),
        };
        addrs.into_iter().map(|a| (a.port() as usize).wrapping_sub(2000)).collect()
    }
}

fn build_set(proto: Proto, vinfos: &[ValidatorInfo], fanout: usize, warm: Option<&[Shred]>) -> Vec<Node> {
    let epoch = EpochInfo::new(vinfos.to_vec());
    (0..vinfos.len())
        .map(|i| {
            let ve = Arc::new(ValidatorEpochInfo::new(ValidatorIndex::new(i as u64), epoch.clone()));
            match proto {
                Proto::RotorDefault => Node::R(Rotor::new(SinkNet, ve)),
                Proto::RotorFa1 => Node::F(Rotor::new_fa1(SinkNet, ve)),
                Proto::RotorWithSampler => {
                    // start from a sampler over *other* stakes, optionally warm the cache, then install the real one
                    let mut other = vinfos.to_vec();
                    other.reverse();
                    for (j, v) in other.iter_mut().enumerate() {
                        v.id = ValidatorIndex::new(j as u64);
                    }
                    let r = Rotor::new(SinkNet, ve).with_sampler(StakeWeightedSampler::new(other).into_quorum_strategy(64));
                    if let Some(shreds) = warm {
                        for s in shreds {
                            let _ = call(&r, s, true);
                        }
                    }
                    Node::R(r.with_sampler(StakeWeightedSampler::new(vinfos.to_vec()).into_quorum_strategy(64)))
                }
                Proto::Turbine => {
                    let t = Turbine::new(SinkNet, ve);
                    let t = if let Some(shreds) = warm {
                        let t = t.with_fanout(fanout + 1);
                        for s in shreds {
                            let _ = call(&t, s, true);
                            let _ = call(&t, s, false);
                        }
                        t
                    } else {
                        t
                    };
                    Node::T(t.with_fanout(fanout))
                }
                Proto::Trivial => Node::V(TrivialDisseminator::new(vinfos.to_vec(), SinkNet)),
            }
        })
        .collect()
}

pub struct C16;

impl Property for C16 {
    type Case = Case;
    fn id(&self) -> &'static str {
        "C16"
    }
    fn cases(&self, tier: Tier) -> u32 {
        tier.pick(4_000, 120_000)
    }
    fn rule(&self) -> String {
        "cases: Rotor (default constructor, FA1 constructor, sampler installed through with_sampler), Turbine (fanout \
         1..n+3) or the trivial disseminator over 1..=60 validators with generated stakes; 1..=8 (slot, slice, shred) \
         triples incl. large slots and slice 1023; two independently constructed sets of per-validator instances, the \
         first queried in order (optionally after warming its caches under another sampler / fanout and swapping), the \
         second in reverse order with repeats. Oracle: for every triple the leader's destination and every node's forward \
         set are identical across the two sets and across repeated calls; simulating the sends, every validator other \
         than the leader receives the shred exactly once (Rotor: one leader send, exactly one relay broadcast; Turbine: \
         the forwards from the root cover everyone once; trivial: one send to everybody, no forwards). Non-trivial: \
         unequal stakes and, for Rotor, a relay different from the leader."
            .into()
    }
    fn assumptions(&self) -> Vec<String> {
        vec![
            "no faults and no loss (the property's premise); a recording network stands in for the sockets".into(),
            "stakes are scaled by 1000 so that Rotor::new_fa1's partition fallback is outside the empty-bin construction panic recorded under C17".into(),
        ]
    }
    fn strategy(&self, _tier: Tier) -> BoxedStrategy<Case> {
        let proto = prop_oneof![3 => Just(Proto::RotorDefault), 3 => Just(Proto::RotorFa1), 2 => Just(Proto::RotorWithSampler), 4 => Just(Proto::Turbine), 1 => Just(Proto::Trivial)];
        let stakes = prop_oneof![
            2 => (1usize..=60, 1u32..100).prop_map(|(n, s)| vec![s; n]),
            4 => prop::collection::vec(1u32..=50, 1..=60),
            1 => prop::collection::vec(prop_oneof![1u32..5, 500u32..2000], 2..=40),
        ];
        let triple = (prop_oneof![3 => 1u64..200, 1 => any::<u64>()], prop_oneof![4 => 0u16..4, 1 => Just(1023u16), 1 => 0u16..1024], 0u8..64);
        (proto, stakes, 1u8..70, prop::collection::vec(triple, 1..=8), any::<bool>())
            .prop_map(|(proto, stakes, fanout, triples, swap_after_warmup)| Case { proto, stakes, fanout, triples, swap_after_warmup })
            .boxed()
    }
    fn regressions(&self) -> Vec<Case> {
        // cases with an empty stake vector stand for the node-level scenario (Rotor, then Turbine)
        vec![
            Case { proto: Proto::RotorDefault, stakes: vec![], fanout: 5, triples: vec![], swap_after_warmup: false },
            Case { proto: Proto::Turbine, stakes: vec![], fanout: 2, triples: vec![], swap_after_warmup: false },
        ]
    }
    fn run(&self, case: &Case) -> Outcome {
        if case.stakes.is_empty() {
            return node_dissemination_check(7, case.fanout as usize, (case.proto == Proto::Turbine).then_some(2));
        }
        let mut out = Outcome::default();
        let vinfos = infos(&case.stakes);
        let n = vinfos.len();
        let fanout = (case.fanout as usize).clamp(1, n + 3);
        let unequal = case.stakes.iter().any(|s| *s != case.stakes[0]);
        out.label(format!("proto={:?}", case.proto));
        // real shreds for the triples
        let mut shreds: Vec<Shred> = Vec::new();
        let mut cache: BTreeMap<(u64, u16), Vec<Shred>> = BTreeMap::new();
        for (slot, slice, idx) in &case.triples {
            let all = cache.entry((*slot, *slice)).or_insert_with(|| {
                let leader = (*slot / 4 % n as u64) as usize;
                let sl = make_slice(*slot, *slice as usize, false, None, vec![1, 2, 3]);
                RegularShredder::default().shred(&sl, &keys().sig[leader % 64]).expect("shred").iter().map(|s| s.as_shred().clone()).collect()
            });
            shreds.push(all[*idx as usize].clone());
        }
        let built = catch(|| {
            let a = build_set(case.proto, &vinfos, fanout, case.swap_after_warmup.then_some(&shreds[..]));
            let b = build_set(case.proto, &vinfos, fanout, None);
            (a, b)
        });
        let (set_a, set_b) = match built {
            Ok(x) => x,
            Err(p) => {
                let sig = format!("C16/construct-panic/{:?}/{}", case.proto, panic_msg(&p));
                if is_known("C16", &sig) {
                    out.excluded_known += 1;
                }
                out.violate(sig, format!("n={n}: {p}"));
                return out;
            }
        };
        let epoch = EpochInfo::new(vinfos.clone());
        let r = catch(|| {
            // set A in order
            let mut routes_a: Vec<(Vec<usize>, Vec<Vec<usize>>)> = Vec::new();
            for (t, shred) in shreds.iter().enumerate() {
                let slot = case.triples[t].0;
                let leader = epoch.leader(Slot::new(slot)).id.as_usize();
                let send = set_a[leader].route(shred, true);
                let fwd: Vec<Vec<usize>> = (0..n).map(|v| set_a[v].route(shred, false)).collect();
                routes_a.push((send, fwd));
            }
            // set B in reverse order, each queried twice (cold, then warm cache)
            for (t, shred) in shreds.iter().enumerate().rev() {
                let slot = case.triples[t].0;
                let leader = epoch.leader(Slot::new(slot)).id.as_usize();
                for round in 0..2 {
                    let send = set_b[leader].route(shred, true);
                    out.checks += 1;
                    if send != routes_a[t].0 {
                        out.violate(
                            format!("C16/instances-disagree/leader-destination/{:?}", case.proto),
                            format!("triple {:?}: instance set A sends to {:?}, set B (round {round}) to {send:?}", case.triples[t], routes_a[t].0),
                        );
                        return;
                    }
                    for v in (0..n).rev() {
                        let f = set_b[v].route(shred, false);
                        if f != routes_a[t].1[v] {
                            out.violate(
                                format!("C16/instances-disagree/forward-set/{:?}", case.proto),
                                format!("triple {:?}: validator {v} forwards to {:?} in set A and to {f:?} in set B (round {round})", case.triples[t], routes_a[t].1[v]),
                            );
                            return;
                        }
                    }
                }
            }
            // delivery simulation on set A's routes
            for (t, (send, fwd)) in routes_a.iter().enumerate() {
                let slot = case.triples[t].0;
                let leader = epoch.leader(Slot::new(slot)).id.as_usize();
                let mut received = vec![0usize; n];
                let mut queue: Vec<usize> = Vec::new();
                for d in send {
                    if *d >= n {
                        out.violate("C16/destination-out-of-range", format!("{d}"));
                        return;
                    }
                    received[*d] += 1;
                    queue.push(*d);
                }
                let mut forwarded = vec![false; n];
                let mut broadcasts = 0;
                while let Some(v) = queue.pop() {
                    if forwarded[v] {
                        continue;
                    }
                    forwarded[v] = true;
                    if !fwd[v].is_empty() {
                        broadcasts += 1;
                    }
                    for d in &fwd[v] {
                        if *d >= n {
                            out.violate("C16/destination-out-of-range", format!("{d}"));
                            return;
                        }
                        received[*d] += 1;
                        queue.push(*d);
                    }
                }
                out.checks += 1;
                for v in 0..n {
                    if v == leader {
                        continue;
                    }
                    if received[v] != 1 {
                        let class = if received[v] == 0 { "not-reached" } else { "reached-more-than-once" };
                        out.violate(
                            format!("C16/delivery/{class}/{:?}", case.proto),
                            format!("triple {:?}, n={n}, fanout {fanout}, leader {leader}: validator {v} received the shred {} times (leader sends to {send:?})", case.triples[t], received[v]),
                        );
                        return;
                    }
                }
                match case.proto {
                    Proto::RotorDefault | Proto::RotorFa1 | Proto::RotorWithSampler => {
                        out.check(send.len() == 1, "C16/rotor/leader-sends-to-more-than-one-relay", || format!("{send:?}"));
                        let excluded = if send.first() == Some(&leader) { 1 } else { 2 };
                        let expected = usize::from(n > excluded);
                        out.check(broadcasts == expected, "C16/rotor/not-exactly-one-relay-broadcast", || {
                            format!("triple {:?}: {broadcasts} broadcasts, expected {expected}", case.triples[t])
                        });
                        if unequal && send.first() != Some(&leader) {
                            out.nontrivial = true;
                        }
                    }
                    Proto::Turbine => {
                        out.check(send.len() == 1, "C16/turbine/leader-sends-to-more-than-root", || format!("{send:?}"));
                        out.nontrivial |= unequal;
                    }
                    Proto::Trivial => {
                        out.check(broadcasts == 0, "C16/trivial/forwards", || "forward is not a no-op".into());
                        out.nontrivial |= unequal;
                    }
                }
            }
        });
        if let Err(p) = r {
            out.violate(format!("C16/panic/{:?}/{}", case.proto, panic_msg(&p)), p);
        }
        out
    }
}

/// Node-level clause: in a fault-free run of full nodes every shred a leader sends reaches every
/// other validator exactly once (the node's own receive / forward path is part of the route).
pub fn node_dissemination_check(seed: u64, n: usize, turbine: Option<usize>) -> Outcome {
    use crate::fixtures::net::with_runtime;
    use crate::fixtures::nsim::{Diss, Switch, advance, start_node};
    use crate::fixtures::shreds::ShredParts;
    use crate::engine::{panic_site, take_panics};

    let r = catch(|| {
        with_runtime(true, seed, async move {
            let mut out = Outcome::default();
            let stakes = vec![1u64; n];
            let switch = Switch::new(Box::new(|_f, _t, _i, _c| Some(15)));
            switch.record_shreds(true);
            let diss = match turbine {
                Some(f) => Diss::Turbine(f),
                None => Diss::Rotor,
            };
            let nodes: Vec<_> = (0..n).map(|i| start_node(&switch, &stakes, i, diss)).collect();
            advance(4_000).await;
            let panics = take_panics();
            if !panics.is_empty() {
                let p = panics.join(" | ");
                out.violate(format!("C16/node/panic/{}/{}", panic_site(&p), panic_msg(&p)), p);
            }
            let log = switch.take_shred_log();
            // (slot, slice, shred) -> receipts per validator; only slots that are certainly complete
            let mut receipts: BTreeMap<(u64, u64, u64), Vec<usize>> = BTreeMap::new();
            let mut max_slot = 0;
            for (_from, to, bytes) in &log {
                if let Some(p) = ShredParts::parse(bytes) {
                    max_slot = max_slot.max(p.slot);
                    receipts.entry((p.slot, p.slice_index, p.shred_index)).or_insert_with(|| vec![0; n])[*to] += 1;
                }
            }
            for ((slot, slice, idx), r) in &receipts {
                if *slot + 2 > max_slot {
                    continue; // may still be in flight
                }
                let leader = (*slot / 4 % n as u64) as usize;
                for v in 0..n {
                    if v == leader {
                        continue;
                    }
                    out.checks += 1;
                    if r[v] != 1 {
                        let class = if r[v] == 0 { "not-reached" } else { "reached-more-than-once" };
                        out.violate(
                            format!("C16/node/delivery/{class}/{}", if turbine.is_some() { "Turbine" } else { "Rotor" }),
                            format!("fault-free run of {n} full nodes: shred {idx} of slice {slice} of slot {slot} (leader {leader}) was delivered {} times to validator {v}; receipts per validator {r:?}", r[v]),
                        );
                        for nd in &nodes {
                            nd.cancel.cancel();
                            nd.task.abort();
                        }
                        return out;
                    }
                }
            }
            out.label(format!("node-scenario=fault-free-dissemination shreds={}", receipts.len() / 500 * 500));
            out.nontrivial = receipts.len() > 100;
            for nd in &nodes {
                nd.cancel.cancel();
                nd.task.abort();
            }
            out
        })
    });
    match r {
        Ok(o) => o,
        Err(p) => {
            let mut o = Outcome::default();
            o.violate(format!("C16/node/panic/{}", panic_msg(&p)), p);
            o
        }
    }
}
