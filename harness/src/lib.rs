//! verif-engine: property-based checks for qkniep/alpenglow (library part: engine, fixtures,
//! one module per property, and the libFuzzer entry point used by /verif/fuzz).
#![allow(dead_code)]

pub mod engine;
pub mod fixtures;
pub mod fuzz;
pub mod props;
