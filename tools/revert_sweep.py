#!/usr/bin/env python3
"""For every `fix:` commit of /repo: reverse-apply it in a scratch worktree (/tmp/sensrev/repo), rebuild a scratch copy of
the harness against it and run the quick tier of the checks named in known_findings.json for that commit. A fix whose
revert is not reported means the check lost its grip on that defect. Writes seeded/REVERTS.json. Touches nothing under
/repo or /verif/harness."""
import json, os, subprocess, sys, shutil, time

S = "/tmp/sensrev"
REPO = f"{S}/repo"
HARN = f"{S}/harness"
ENV = dict(os.environ, CARGO_NET_OFFLINE="true", CARGO_TARGET_DIR=f"{HARN}/target", VERIF_OUT_ROOT=f"{S}/out", MALLOC_ARENA_MAX="2")

def sh(cmd, **kw):
    return subprocess.run(cmd, shell=True, text=True, capture_output=True, **kw)

def main():
    only = set(sys.argv[sys.argv.index("--only") + 1].split(",")) if "--only" in sys.argv else None
    if os.path.isdir(REPO):
        sh(f"git -C /repo worktree remove --force {REPO}")
    shutil.rmtree(S, ignore_errors=True)
    os.makedirs(f"{S}/out", exist_ok=True)
    sh(f"git -C /repo worktree add -q --detach {REPO} HEAD")
    sh(f"rsync -a --exclude target /verif/harness/ {HARN}/")
    t = open(f"{HARN}/Cargo.toml").read().replace('path = "/repo"', f'path = "{REPO}"')
    open(f"{HARN}/Cargo.toml", "w").write(t)
    cfg = open(f"{HARN}/.cargo/config.toml").read().replace("/verif/harness/target", f"{HARN}/target")
    open(f"{HARN}/.cargo/config.toml", "w").write(cfg)
    fixes = [l.split(" ", 1) for l in sh("git -C /repo log --format='%h %s' --grep='^fix:'").stdout.strip().splitlines()]
    kf = json.load(open("/verif/known_findings.json"))["findings"]
    by_commit = {}
    for f in kf:
        if f.get("status") == "fixed" and f.get("commit"):
            by_commit.setdefault(f["commit"][:7], set()).add(f["property"])
    results = json.load(open("/verif/seeded/REVERTS.json")) if only and os.path.exists("/verif/seeded/REVERTS.json") else {}
    for c, subject in fixes:
        if only and c not in only: continue
        props = sorted(by_commit.get(c[:7], []))
        sh(f"git -C {REPO} reset -q --hard HEAD")
        r = sh(f"git -C {REPO} show {c} -- src | git -C {REPO} apply -R --3way -")
        if r.returncode != 0:
            r = sh(f"git -C {REPO} show {c} -- src | git -C {REPO} apply -R -")
        also = []
        if r.returncode != 0:
            # a later fix edits the same lines: reverse-apply the later fix: commits (newest first) that
            # touch the same files until this one applies as well
            files = set(sh(f"git -C /repo show --format= --name-only {c} -- src").stdout.split())
            sh(f"git -C {REPO} reset -q --hard HEAD")
            for c2, _ in fixes:
                if c2 == c: break
                f2 = set(sh(f"git -C /repo show --format= --name-only {c2} -- src").stdout.split())
                if not (files & f2): continue
                r2 = sh(f"git -C {REPO} show {c2} -- src | git -C {REPO} apply -R -")
                if r2.returncode == 0:
                    also.append(c2)
                    r = sh(f"git -C {REPO} show {c} -- src | git -C {REPO} apply -R -")
                    if r.returncode == 0: break
        if r.returncode != 0:
            results[c] = {"subject": subject, "status": "revert does not apply (later fixes edit the same lines)", "checks": props}
            print(c, "REVERT DOES NOT APPLY", flush=True); continue
        if also:
            props = sorted(set(props) | {p for a in also for p in by_commit.get(a[:7], [])})
        b = subprocess.run("cargo build --release --offline", shell=True, cwd=HARN, env=ENV, capture_output=True, text=True)
        if b.returncode != 0:
            results[c] = {"subject": subject, "status": "reverted tree does not build with the harness", "checks": props}
            print(c, "DOES NOT BUILD", b.stderr[-300:], flush=True); continue
        det = {}
        for p in props:
            r = subprocess.run([f"{HARN}/target/release/verif-engine", p, "--tier", "quick"], text=True, capture_output=True, env=dict(ENV, VERIF_SEED="0"), cwd=HARN)
            why = [l for l in r.stdout.splitlines() if l.startswith("violation:") or l.startswith("regression case")]
            det[p] = {"exit": r.returncode, "why": (why[0][:240] if why else "")}
        results[c] = {"subject": subject, "status": "ok" if not also else f"reverted together with {also}", "checks": det}
        print(c, subject[:60], {p: v["exit"] for p, v in det.items()}, flush=True)
        json.dump(results, open("/verif/seeded/REVERTS.json", "w"), indent=1, sort_keys=True)
    sh(f"git -C /repo worktree remove --force {REPO}")
    shutil.rmtree(S, ignore_errors=True)

main()
