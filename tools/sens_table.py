#!/usr/bin/env python3
"""Regenerates the sensitivity table in DESIGN.md (between the SENSITIVITY-TABLE markers) from
seeded/SENSITIVITY.json and seeded/*/meta.json."""
import json, glob, os, re
res = json.load(open('/verif/seeded/SENSITIVITY.json')) if os.path.exists('/verif/seeded/SENSITIVITY.json') else {}
rows = ["| seeded change | what it breaks (one line) | detected by (quick tier) | how it shows |", "|---|---|---|---|"]
caught = missed = 0
for d in sorted(glob.glob('/verif/seeded/C*-*')):
    name = os.path.basename(d)
    m = json.load(open(f'{d}/meta.json'))
    title = m.get('title', '').split('—', 1)[-1].strip() or m.get('title', '')
    det = m.get('detected_by', [])
    r = res.get(name, {})
    why = ''
    for c in det:
        w = r.get('detail', {}).get(c, {}).get('why', '')
        if w:
            why = re.sub(r'^(violation: |regression case #\d+ failed: )', '', w).split(' — ')[0][:110]
            break
    own = name.split('-')[0]
    if det:
        caught += 1
    else:
        missed += 1
    rows.append(f"| {name} | {title[:140]} | {', '.join(det) if det else '**not detected**'} | `{why}` |" if why else f"| {name} | {title[:140]} | {', '.join(det) if det else '**not detected**'} | |")
rows.append("")
rows.append(f"{caught} of {caught + missed} seeded changes are reported by at least one quick check.")
p = '/verif/DESIGN.md'
s = open(p).read()
a = s.index('<!-- SENSITIVITY-TABLE-BEGIN -->') + len('<!-- SENSITIVITY-TABLE-BEGIN -->')
b = s.index('<!-- SENSITIVITY-TABLE-END -->')
s = s[:a] + '\n' + '\n'.join(rows) + '\n' + s[b:]
open(p, 'w').write(s)
print(caught, missed)
