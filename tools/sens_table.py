#!/usr/bin/env python3
"""Regenerates the sensitivity table in DESIGN.md (between the SENSITIVITY-TABLE markers) from
seeded/SENSITIVITY.json and seeded/*/meta.json."""
import json, glob, os, re
res = json.load(open('/verif/seeded/SENSITIVITY.json')) if os.path.exists('/verif/seeded/SENSITIVITY.json') else {}
rows = ["| seeded change | what it breaks (one line) | detected by (quick tier) | how it shows |", "|---|---|---|---|"]
caught = missed = 0
for d in sorted(glob.glob('/verif/seeded/C*-*')):
    name = os.path.basename(d)
    m = json.load(open(f'{d}/meta.json'))
    title = m.get('title', '').split('—', 1)[-1].strip() or m.get('title', '')
    det = m.get('detected_by', [])
    r = res.get(name, {})
    why = ''
    for c in det:
        w = r.get('detail', {}).get(c, {}).get('why', '')
        if w:
            why = re.sub(r'^(violation: |regression case #\d+ failed: )', '', w).split(' — ')[0][:110]
            break
    own = name.split('-')[0]
    if det:
        caught += 1
    else:
        missed += 1
    rows.append(f"| {name} | {title[:140]} | {', '.join(det) if det else '**not detected**'} | `{why}` |" if why else f"| {name} | {title[:140]} | {', '.join(det) if det else '**not detected**'} | |")
rows.append("")
rows.append(f"{caught} of {caught + missed} seeded changes are reported by at least one quick check.")
# --- reverted fixes
rv = json.load(open('/verif/seeded/REVERTS.json')) if os.path.exists('/verif/seeded/REVERTS.json') else {}
rows.append("")
rows.append("Reverted fixes (`tools/revert_sweep.py`: each `fix:` commit reverse-applied in a scratch worktree, quick tier of the checks that own the defect):")
rows.append("")
rows.append("| reverted fix | reported by | not reported by | note |")
rows.append("|---|---|---|---|")
for c, v in rv.items():
    ch = v.get('checks', {})
    if isinstance(ch, dict):
        yes = [k for k, x in ch.items() if x.get('exit') == 1]
        no = [k for k, x in ch.items() if x.get('exit') != 1]
    else:
        yes, no = [], list(ch)
    note = '' if v.get('status') == 'ok' else v.get('status', '')
    rows.append(f"| {c} {v.get('subject','')[5:75]} | {', '.join(yes)} | {', '.join(no)} | {note} |")
p = '/verif/DESIGN.md'
s = open(p).read()
a = s.index('<!-- SENSITIVITY-TABLE-BEGIN -->') + len('<!-- SENSITIVITY-TABLE-BEGIN -->')
b = s.index('<!-- SENSITIVITY-TABLE-END -->')
s = s[:a] + '\n' + '\n'.join(rows) + '\n' + s[b:]
open(p, 'w').write(s)
print(caught, missed)
