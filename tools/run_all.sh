#!/usr/bin/env bash
# Runs every claimed check once (tier from $1, default quick) and prints one line per property.
cd /verif
tier="${1:-quick}"
rc=0
for id in $(python3 -c "import json;print(' '.join(c['property_id'] for c in json.load(open('MANIFEST.json'))['checks']))"); do
  out=$(./check "$id" --tier "$tier" 2>/dev/null)
  code=$?
  echo "$id exit=$code $(echo "$out" | grep -E "^(VIOLATION|$id )" | tail -1)"
  echo "$out" | grep -E "^KNOWN-FINDING" | cut -c1-160
  [ $code -ne 0 ] && rc=1
done
exit $rc
