#!/usr/bin/env bash
# Confirms a sub-agent's seeded change in its scratch worktree:
#   tools/confirm_seed.sh <worktree> <demo test filter>
# expects <worktree>/patch.diff and <worktree>/demo.diff; prints demo_without / demo_with / suite_with.
set -u
wt="$1"; filt="$2"
export CARGO_NET_OFFLINE=true CARGO_TARGET_DIR="$wt/target"
cd "$wt" || exit 2
git checkout -q -- . || exit 2
git apply demo.diff || { echo "demo.diff does not apply"; exit 2; }
if cargo test --offline --lib "$filt" 2>&1 | grep -E "^test result: ok\. [1-9]" >/dev/null; then echo "demo_without_change: pass"; else echo "demo_without_change: FAIL"; fi
git apply patch.diff || { echo "patch.diff does not apply on top of demo"; exit 2; }
if cargo test --offline --lib "$filt" 2>&1 | grep -E "^test result: FAILED" >/dev/null; then echo "demo_with_change: fail"; else echo "demo_with_change: NOT FAILING"; fi
git checkout -q -- . ; git apply patch.diff || exit 2
cargo test --offline --lib 2>&1 | grep -E "^test result" | sed 's/^/suite_with_change: /'
git checkout -q -- .
