#!/usr/bin/env bash
# usage: tools/try_mutant.sh <patch.diff> <ID> [<ID>...]   — applies the patch to /repo, runs the quick checks, reverts.
set -u
patch="$1"; shift
if ! git -C /repo diff --quiet; then echo "/repo working tree is dirty" >&2; exit 2; fi
if ! git -C /repo apply --3way "$patch" 2>/dev/null && ! git -C /repo apply "$patch"; then echo "patch does not apply" >&2; exit 2; fi
for id in "$@"; do
  out=$(cd /verif && ./check "$id" --tier "${TIER:-quick}" 2>/dev/null | grep -E "^(VIOLATION|violation|regression|KNOWN|C[0-9]+ )" | cut -c1-400)
  echo "--- $id: $out"
done
git -C /repo reset -q --hard HEAD
git -C /repo status --short | head -3
