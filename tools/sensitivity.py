#!/usr/bin/env python3
"""Sensitivity sweep: applies every kept seeded change in turn to a scratch worktree of /repo, rebuilds a scratch copy of the
harness against it, runs quick checks (the property's own and related ones), and records which checks reported a violation.

usage: tools/sensitivity.py [--only C01-A,C02-B] [--extra] [--jobs N]
Nothing under /repo or /verif/harness is touched: the scratch worktree is /tmp/sens/repo, the harness copy /tmp/sens/harness
(own target dir), evidence and replay files of these runs go to /tmp/sens/out. Writes seeded/<id>/meta.json: detected_by and
seeded/SENSITIVITY.json; removes /tmp/sens at the end."""
import json, os, subprocess, sys, glob, time, shutil

EXTRA = {  # related checks that share mechanisms with the seeded property
    "C01": ["C05", "C03", "C06"], "C02": ["C07", "C03", "C16", "C06", "C12"], "C03": ["C09", "C19"], "C05": ["C06"], "C07": ["C08"], "C08": ["C07"],
    "C10": ["C14", "C13"], "C12": ["C13"], "C13": ["C12"], "C14": ["C13", "C15"], "C15": ["C12", "C14"], "C16": ["C17"], "C17": ["C16"],
    "C19": ["C10"],
}
S = os.environ.get("SENS_DIR", "/tmp/sens")
REPO = f"{S}/repo"
HARN = f"{S}/harness"
ENV = dict(os.environ, CARGO_NET_OFFLINE="true", CARGO_TARGET_DIR=f"{HARN}/target", VERIF_OUT_ROOT=f"{S}/out", MALLOC_ARENA_MAX="2")

def sh(cmd, **kw):
    return subprocess.run(cmd, shell=True, text=True, capture_output=True, **kw)

def setup():
    if os.path.isdir(REPO):
        sh(f"git -C /repo worktree remove --force {REPO}")
    shutil.rmtree(S, ignore_errors=True)
    os.makedirs(f"{S}/out", exist_ok=True)
    r = sh(f"git -C /repo worktree add -q --detach {REPO} HEAD")
    if r.returncode: print(r.stderr, file=sys.stderr); sys.exit(2)
    sh(f"rsync -a --exclude target /verif/harness/ {HARN}/")
    for f in ("Cargo.toml",):
        t = open(f"{HARN}/{f}").read().replace('path = "/repo"', f'path = "{REPO}"')
        open(f"{HARN}/{f}", "w").write(t)
    cfg = open(f"{HARN}/.cargo/config.toml").read().replace("/verif/harness/target", f"{HARN}/target")
    open(f"{HARN}/.cargo/config.toml", "w").write(cfg)

def build():
    r = subprocess.run("cargo build --release --offline", shell=True, cwd=HARN, env=ENV, capture_output=True, text=True)
    return r.returncode == 0, r.stderr[-1500:]

def run_check(pid, seed=0):
    env = dict(ENV, VERIF_SEED=str(seed))
    r = subprocess.run([f"{HARN}/target/release/verif-engine", pid, "--tier", "quick"], text=True, capture_output=True, env=env, cwd=HARN)
    viol = [l for l in r.stdout.splitlines() if l.startswith("violation:") or l.startswith("regression case")]
    return r.returncode, (viol[0][:300] if viol else "")

def main():
    only = None
    extra = "--extra" in sys.argv
    if "--only" in sys.argv:
        only = set(sys.argv[sys.argv.index("--only") + 1].split(","))
    setup()
    ok, err = build()
    if not ok:
        print("scratch harness does not build on the unchanged tree", err, file=sys.stderr); sys.exit(2)
    results = {}
    path = os.environ.get("SENS_RESULTS", "/verif/seeded/SENSITIVITY.json")
    if os.path.exists(path):
        results = json.load(open(path))
    for d in sorted(glob.glob("/verif/seeded/C*-*")):
        name = os.path.basename(d)
        if only and name not in only: continue
        pid = name.split("-")[0]
        sh(f"git -C {REPO} reset -q --hard HEAD")
        r = sh(f"git -C {REPO} apply {d}/patch.diff || git -C {REPO} apply --3way {d}/patch.diff")
        if r.returncode != 0:
            print(name, "PATCH DOES NOT APPLY", r.stderr[:200], flush=True); continue
        ok, err = build()
        if not ok:
            print(name, "DOES NOT BUILD WITH HARNESS", err[-300:], flush=True); continue
        checks = [pid] + (EXTRA.get(pid, []) if extra else [])
        det = []; detail = {}
        t0 = time.time()
        for c in checks:
            code, why = run_check(c)
            detail[c] = {"exit": code, "why": why}
            if code == 1: det.append(c)
        results[name] = {"detected_by": det, "checks_run": checks, "detail": detail, "wall_s": round(time.time() - t0, 1)}
        print(name, "detected_by", det, {c: v["exit"] for c, v in detail.items()}, flush=True)
        mp = f"{d}/meta.json"
        m = json.load(open(mp))
        prev = set(m.get("detected_by", []))
        m["detected_by"] = sorted(set(det) | {p for p in prev if p not in checks})
        json.dump(m, open(mp, "w"), indent=1)
        json.dump(results, open(path, "w"), indent=1, sort_keys=True)
    sh(f"git -C /repo worktree remove --force {REPO}")
    shutil.rmtree(S, ignore_errors=True)

main()
