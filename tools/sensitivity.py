#!/usr/bin/env python3
"""Sensitivity sweep: applies every kept seeded change (and optionally the revert of every fix: commit)
to /repo in turn, runs quick checks, reverts, and records which checks reported a violation.

usage: tools/sensitivity.py [--only C01-A,C02-B] [--extra]   (--extra: also run the related checks listed in EXTRA)
Writes seeded/<id>/meta.json: detected_by and seeded/SENSITIVITY.json. Never run concurrently with other checks
(it edits /repo's working tree and restores it with `git checkout -- . && git clean` of the touched files)."""
import json, os, subprocess, sys, glob, time

EXTRA = {  # related checks that share mechanisms with the seeded property
    "C01": ["C05", "C03"], "C02": ["C07", "C03", "C16"], "C03": ["C09"], "C05": ["C06"], "C07": ["C08"], "C08": ["C07"],
    "C10": ["C14", "C13"], "C12": ["C13"], "C13": ["C12"], "C14": ["C13", "C15"], "C15": ["C12"], "C16": ["C17"], "C17": ["C16"],
    "C19": ["C10"],
}

def sh(cmd, **kw):
    return subprocess.run(cmd, shell=True, text=True, capture_output=True, **kw)

def clean_repo():
    sh("git -C /repo reset -q --hard HEAD")

def run_check(pid, seed=0):
    env = dict(os.environ, VERIF_SEED=str(seed))
    r = subprocess.run(["/verif/check", pid, "--tier", "quick"], text=True, capture_output=True, env=env, cwd="/verif")
    viol = [l for l in r.stdout.splitlines() if l.startswith("violation:") or l.startswith("regression case")]
    return r.returncode, (viol[0][:300] if viol else "")

def main():
    only = None
    extra = "--extra" in sys.argv
    if "--only" in sys.argv:
        only = set(sys.argv[sys.argv.index("--only") + 1].split(","))
    if sh("git -C /repo status --porcelain --untracked-files=no").stdout.strip():
        print("/repo working tree is dirty", file=sys.stderr); sys.exit(2)
    results = {}
    path = "/verif/seeded/SENSITIVITY.json"
    if os.path.exists(path):
        results = json.load(open(path))
    for d in sorted(glob.glob("/verif/seeded/C*-*")):
        name = os.path.basename(d)
        if only and name not in only: continue
        pid = name.split("-")[0]
        r = sh(f"git -C /repo apply {d}/patch.diff || git -C /repo apply --3way {d}/patch.diff")
        if r.returncode != 0:
            print(name, "PATCH DOES NOT APPLY", r.stderr[:200]); clean_repo(); continue
        checks = [pid] + (EXTRA.get(pid, []) if extra else [])
        det = []; detail = {}
        t0 = time.time()
        for c in checks:
            code, why = run_check(c)
            detail[c] = {"exit": code, "why": why}
            if code == 1: det.append(c)
        clean_repo()
        results[name] = {"detected_by": det, "checks_run": checks, "detail": detail, "wall_s": round(time.time() - t0, 1)}
        print(name, "detected_by", det, {c: v["exit"] for c, v in detail.items()}, flush=True)
        mp = f"{d}/meta.json"
        m = json.load(open(mp))
        prev = set(m.get("detected_by", []))
        # keep detections recorded earlier by checks not re-run now
        m["detected_by"] = sorted(set(det) | {p for p in prev if p not in checks})
        json.dump(m, open(mp, "w"), indent=1)
        json.dump(results, open(path, "w"), indent=1, sort_keys=True)
    clean_repo()

main()
