#!/usr/bin/env python3
"""Merges partial sensitivity result files (sweeps run in separate scratch directories) into seeded/SENSITIVITY.json and the
meta.json files: a seeded change counts as detected by a check if the latest run of that check against it reported a violation."""
import json, sys, os
main = '/verif/seeded/SENSITIVITY.json'
res = json.load(open(main)) if os.path.exists(main) else {}
for f in sys.argv[1:]:
    if not os.path.exists(f): continue
    for name, r in json.load(open(f)).items():
        cur = res.setdefault(name, {"detected_by": [], "checks_run": [], "detail": {}})
        for c, d in r.get("detail", {}).items():
            cur["detail"][c] = d          # later file = later harness: overrides
        cur["checks_run"] = sorted(set(cur.get("checks_run", [])) | set(r.get("checks_run", [])))
        cur["detected_by"] = sorted(c for c, d in cur["detail"].items() if d.get("exit") == 1)
for name, r in res.items():
    mp = f'/verif/seeded/{name}/meta.json'
    if os.path.exists(mp):
        m = json.load(open(mp)); m["detected_by"] = r["detected_by"]; json.dump(m, open(mp, "w"), indent=1)
json.dump(res, open(main, "w"), indent=1, sort_keys=True)
missed = sorted(n for n, r in res.items() if not r["detected_by"])
print(len(res), "seeds;", "not detected:", missed)
