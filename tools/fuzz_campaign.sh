#!/usr/bin/env bash
# usage: tools/fuzz_campaign.sh <ID> <seed> [runs-per-process]
# Coverage-guided campaign for one property (DESIGN.md §2.7): 16 libFuzzer processes sharing one
# fresh corpus, fixed number of executions each. Prints VIOLATION lines found by the target.
# Exit 0 = nothing found, 1 = violation, 2 = libFuzzer timeout/OOM/harness error, 3 = target does not build.
set -u
id="$1"; seed="${2:-0}"
declare -A RUNS=( [C03]=20000 [C04]=60000 [C06]=30000 [C07]=6000 [C08]=6000 [C09]=25000 [C11]=25000 [C12]=6000 [C13]=4000 [C15]=30000 [C17]=120000 [C19]=200000 [C20]=40000 )
runs="${3:-${RUNS[$id]:-0}}"
if [ "$runs" = 0 ]; then echo "no fuzz entry for $id" >&2; exit 3; fi
export CARGO_NET_OFFLINE=true
cd /verif/harness || exit 3
mkdir -p /verif/harness/target
(
  flock 9
  RUSTFLAGS="--cfg tokio_unstable" cargo +nightly fuzz build -O -s none --fuzz-dir /verif/fuzz prop >/verif/harness/target/fuzz-build.log 2>&1
) 9>/verif/harness/target/.fuzz-build.lock || { echo "FUZZ-BUILD-FAILED (see /verif/harness/target/fuzz-build.log)" >&2; exit 3; }
bin=/verif/harness/target/x86_64-unknown-linux-gnu/release/prop
[ -x "$bin" ] || { echo "FUZZ-BUILD-FAILED: $bin missing" >&2; exit 3; }
w=/verif/fuzz/work/$id
rm -rf "$w"; mkdir -p "$w/corpus" "$w/stats" "$w/artifacts"
python3 - "$w/corpus" "$seed" <<'PY'
import random, sys
r = random.Random(int(sys.argv[2]) & 0xffffffff)
for i in range(16):
    open(f"{sys.argv[1]}/seed{i:02d}", "wb").write(bytes(r.getrandbits(8) for _ in range(2048 if i % 2 else 8192)))
PY
cd "$w" || exit 3
export VERIF_FUZZ_PROP="$id" VERIF_FUZZ_STATS="$w/stats" VERIF_FUZZ_RUNS="$runs" VERIF_SEED="$seed" MALLOC_ARENA_MAX=2
pids=()
for j in $(seq 0 15); do
  s=$(( ( (seed & 0xfffffff) * 16 + j ) + 1 ))
  "$bin" corpus -runs="$runs" -seed="$s" -len_control=0 -max_len=16384 -timeout=300 -rss_limit_mb=6144 -artifact_prefix=artifacts/ -print_final_stats=1 >"fuzz-$j.log" 2>&1 &
  pids+=($!)
done
rc=0
for p in "${pids[@]}"; do wait "$p" || rc=1; done
if grep -h "^VIOLATION property=" fuzz-*.log | sort -u | grep .; then
  grep -h "^violation: " fuzz-*.log | sort -u | head -5
  exit 1
fi
if [ $rc -ne 0 ]; then
  echo "INCONCLUSIVE: a libFuzzer process of the $id campaign ended abnormally without a property violation:" >&2
  grep -h "ERROR: libFuzzer\|harness error\|panicked at" fuzz-*.log | sort | uniq -c | head -5 >&2
  exit 2
fi
exit 0
