#!/usr/bin/env python3
"""Regenerates /verif/MANIFEST.json from the table below (kept in one place so that it stays valid)."""
import json, subprocess, sys

# id -> (technique, level text, level note, design ref); only claimed properties are listed
CLAIMED = {
    "C15": (
        "proptest generated trees + mutation of (leaf, index, root, proof) against an independent reference Merkle tree (semantic truth model)",
        "Generated-input search: every tuple derived from a real tree by 0..3 mutations is decided by an independent reference tree over the padded leaf list (exact iff-oracle for check_proof and check_proof_last, incl. subtree roots); shrunk counterexample on failure. Right level because the property is a pure function over inputs with an executable exact oracle.",
        "SHA-256 collision resistance; leaf counts <= 4097; proptest RNG seeded from VERIF_SEED",
        "DESIGN.md §5 C15",
    ),
}

NOT_YET = "check under construction in this round; will be claimed once its generator and oracle are built and sensitivity-tested"

def main():
    props = [json.loads(l) for l in open('/verif/properties.jsonl')]
    hooks_commits = subprocess.run(
        ["git", "-C", "/repo", "log", "--format=%h %s", "--grep=^verif-hooks"], capture_output=True, text=True
    ).stdout.strip().splitlines()
    checks = []
    na = []
    for p in props:
        pid = p["id"]
        if pid in CLAIMED:
            tech, text, note, ref = CLAIMED[pid]
            checks.append({
                "property_id": pid,
                "quick_cmd": f"./check {pid} --tier quick",
                "thorough_cmd": f"./check {pid} --tier thorough",
                "evidence_file": f"/verif/evidence/{pid}.json",
                "replay_cmd_template": f"./check {pid} --replay {{path}}",
                "engine": "verif-engine",
                "level_claimed": {"category": "exploration", "text": text, "design_ref": ref},
                "level_note": note,
                "technique": tech,
            })
        else:
            na.append({"property_id": pid, "reason": NOT_YET})
    manifest = {
        "version": 1,
        "setup_cmd": "./check build",
        "hooks": {
            "guard": "cargo feature verif-hooks",
            "enable": "the harness crate /verif/harness depends on alpenglow with features [test-utils, verif-hooks] (path dependency on /repo), built with --cfg tokio_unstable",
            "baseline_off_cmd": "cd /repo && (cargo nextest run --workspace --no-fail-fast --test-threads 8 --offline || cargo test --workspace --no-fail-fast --offline)",
            "source_commits": [c.split()[0] for c in hooks_commits],
            "add_only": True,
        },
        "engines": [{
            "name": "verif-engine",
            "path": "/verif/harness",
            "serves_properties": sorted(CLAIMED),
            "kind_free_text": "Rust binary: proptest TestRunner campaigns (fixed work, 16 workers, seeded from VERIF_SEED) with per-property generators, explicit oracles (reference models, differential, round-trip, history invariants), shrinking to replay JSON, known-findings protocol; libFuzzer targets under /verif/fuzz for byte-level surfaces (thorough tier)",
        }],
        "checks": checks,
        "not_applicable": na,
        "notes": "All checks rebuild the harness against /repo's working tree first. Exit 2 = inconclusive (build failure / harness error), never used to hide a violation. Known findings: /verif/known_findings.json.",
    }
    json.dump(manifest, open('/verif/MANIFEST.json', 'w'), indent=1)
    print(f"claimed {len(checks)}, not_applicable {len(na)}")

if __name__ == "__main__":
    main()
