#!/usr/bin/env python3
"""Regenerates /verif/MANIFEST.json from the table below (kept in one place so that it stays valid)."""
import json, subprocess, sys

# id -> (technique, level text, level note, design ref); only claimed properties are listed
CLAIMED = {
    "C01": (
        "proptest-generated multi-node simulations (real pool + real Votor per correct node, Byzantine puppets < 20 %, harness-owned network and paused clock) with a cross-node history invariant after every action",
        "Generated-input search over validator sets (threshold-exact stakes), Byzantine sets, crash points and schedules built from rule-following rounds, split rounds with all delivery-order permutations, leader equivocation with late twins, selective delivery, Byzantine votes and adversary-aggregated certificates; after every action: no conflicting finalisation, one chain, no directly finalised slot with a skip certificate, monotone finalized slot, none of the code's own safety assertions. Right level: safety over schedules needs a harness-owned scheduler; exploration depth is reported, absence is not claimed.",
        "adversary is template-guided random search over 5..=10 validators; correct leaders modelled conservatively; BLS / hash assumptions",
        "DESIGN.md §5 C01",
    ),
    "C02": (
        "proptest-generated full-node simulations (Alpenglow::new + run over a harness byte-level network, paused clock) with bounded-progress oracle and an observed-assumption guard",
        "Generated-input search over stakes, crash / Byzantine sets, Rotor / Turbine, pre-stabilisation delay chaos, post-stabilisation hop delays and a slow shred receiver; bounded liveness in virtual time, skip / finalisation certificates read off the wire, fast-finalisation clause for homogeneous delays.",
        "liveness as a bound derived from the code's constants; no message loss; all node timers run on the paused clock (clock hook); windows whose Rotor assumption (>= 32 live relays per slice) failed are excluded and counted",
        "DESIGN.md §5 C02",
    ),
    "C05": (
        "proptest-generated single-node simulations (real pool + real Votor, unrestricted puppets, paused clock) with a history monitor over the node's broadcast votes",
        "Generated-input search over block arrivals (several per slot, children before parents), timeouts, puppet votes and certificates, rule-following and contested rounds across windows and pruning; every vote the node broadcasts is judged against the tapped pool events and its earlier votes (rules R1-R6), its votes are replayed into a fresh pool in two orders.",
        "puppets may exceed 20 % so unsafe certificate sets end a case without verdict; single-thread paused runtime",
        "DESIGN.md §5 C05",
    ),
    "C09": (
        "proptest wire-level construction of votes and certificates whose validity is known by construction (independent marked sets / aggregated signature multisets, small-order point tampering)",
        "Generated-input search: every aggregated signature is a real signature of a known validator over a known (possibly wrong) payload, marked sets are chosen independently, signer sets sit around the thresholds, mask lengths vary, declared stake is arbitrary; the iff-condition of the statement is evaluated exactly and compared with ValidatedVote / ValidatedCert.",
        "BLS uniqueness / unforgeability; n <= 24",
        "DESIGN.md §5 C09",
    ),
    "C10": (
        "proptest-generated full-node simulations with a catalogue of hostile, partly validly signed inputs on all five interfaces; panic hook + functional liveness probes",
        "Generated-input search: up to 40 hostile messages per case (junk, extreme-slot votes, malformed certificates, Byzantine-leader-signed blocks incl. u64::MAX-adjacent windows, crafted odd-sized shreds, mutated shreds, repair traffic, oversized transactions) injected into running full nodes; no panic anywhere in the process, finalisation resumes (Byzantine stake 14-17 %), repair responder still answers; a repair-traffic guard turns message storms into a reported signature. A quarter of the cases are client floods towards one correct validator (slice-filling bursts over every free-space residue, oversized transactions, optional sustained drip): an observer blockstore must reconstruct every block the validator disseminates, the blocks must carry exactly the admissible transactions in order, and the validator must keep producing all blocks of its windows.",
        "one Byzantine validator (< 20 % stake) or none (client floods); 4..=6 validators; paused clock, all node timers virtual (clock hook), repair peers chosen deterministically by the switch",
        "DESIGN.md §5 C10",
    ),
    "C12": (
        "proptest wire-level mutation of genuine shreds under four cache modes, store scenarios through the node's validate-then-store path, plus a full-node equivocation scenario",
        "Generated-input search: a shred is authentic iff it equals, header + position + payload + proof, a shred of one of the versions the leader signed in the case; every other mutation must be refused; conflicting versions must yield Equivocation / one InvalidBlock; nothing that passed validation for a correct leader's slice may implicate it; Shred::verify_path_only accepts exactly genuine (payload, index, path) in every slice; one case in 64 runs full nodes shown two versions of a slice.",
        "Ed25519 / SHA-256; tag and signature bytes are covered by the no-false-flag clause",
        "DESIGN.md §5 C12",
    ),
    "C13": (
        "proptest block shapes x delivery orders x Byzantine-signed malformations against recomputed double-Merkle root and exactly-once event oracles; fast-path differential",
        "Generated-input search over 1..=40-slice blocks, delivery orders with duplicates and withheld shreds, delivery through the node's cached-commitment path with garbled signatures, optimistic-handover parents in earlier slots or in the same slot, and nine kinds of malformed content (incl. almost-decodable transaction lists) placed anywhere (also after the block completed).",
        "store fed as consensus.rs feeds it",
        "DESIGN.md §5 C13",
    ),
    "C14": (
        "proptest scripted-peer simulations of the real Repair loop and the real RepairRequestHandler on a paused clock; integrity / progress oracles and responder probes",
        "Generated-input search over block shapes and per-request reaction scripts (12 reaction kinds incl. Byzantine-leader-signed variants) with a fairness bound; whenever a block is held or announced under an id its hash equals the id; the repair completes within the retry budget (also when the requester already holds disseminated shreds of the leader's other block for the slot); every responder answer verifies against the block hash, whichever way the responder came to hold the block (dissemination, repair first then dissemination, repair only, mixed).",
        "fairness premise of the property; the three peers addressed per request are played by one scripted respondent (request amplification is a C10 finding)",
        "DESIGN.md §5 C14",
    ),
    "C03": (
        "proptest stateful vote/certificate sequences against a stake reference model + receiver-side validation (differential)",
        "Generated-input search over vote and received-certificate sequences (threshold-exact stakes, duplicates, conflicts, every arrival order sampled); per call a u128 stake model over the accepted votes predicts exactly which certificates must appear; each created certificate is re-validated as a receiver would and its signer set compared with the accepted voters. Right level: the property quantifies over input sequences and has an executable exact oracle.",
        "BLS verification trusted; vote verdicts taken from the pool (C04 checks them); inputs only <20 % Byzantine stake can not produce conflicting notar/fast-final certificates (such cases end as unsafe-input); n <= 10 validators",
        "DESIGN.md §5 C03",
    ),
    "C04": (
        "proptest vote sequences against a decision table written from the statement; exhaustive ordered kind pairs as fixed regression cases",
        "Generated-input search: every vote's verdict is compared with an independent decision table (SlotOutOfBounds | Slashable(any applicable kind) | Duplicate | Ok) including bounds moved by finalisation; all 49 ordered (kind,block) pairs are replayed on every run. Right level: admission is a pure function of the per-validator history.",
        "slashable has priority over duplicate; either of two applicable offence kinds accepted; n <= 6",
        "DESIGN.md §5 C04",
    ),
    "C06": (
        "proptest interleavings of votes, own votes, block registrations and parent certificates against a predicate model evaluated after every call",
        "Generated-input search over the four trigger kinds in generated order with threshold-exact stakes; after every pool call the two predicates of the statement are recomputed from the accepted history and the emitted events must equal the newly true predicates (only-if, at most once, as soon as); a sibling of a parent in the same slot may be certified instead of it.",
        "genesis / pruned parents have no certificate the node holds; own fallback votes follow the own initial vote; cases end when a child slot is finalised",
        "DESIGN.md §5 C06",
    ),
    "C07": (
        "proptest deliveries (order, duplication, cert-or-votes) of constructively consistent worlds against a reachability model",
        "Generated-input search over consistent multi-window histories delivered in generated orders with pruning mid-history; after every call parents_ready(s), the ParentReady announcements and registered waiters are compared with a reachability model recomputed from the set of certificates and links (order-free).",
        "finalisation steps must announce only the highest window (documented filter); one waiter per window; worlds exclude unsafe certificate sets by construction",
        "DESIGN.md §5 C07",
    ),
    "C08": (
        "proptest deliveries of consistent worlds against a finality / watermark model, with retention read through hooks",
        "Generated-input search as for C07; after every call finalized_slot(), the finalisation log, the pruning watermark (equality), per-container retention, out-of-bounds verdicts and queries are compared with a closure model over certificates held and links registered.",
        "hook accessors (verif-hooks) are read-only views of pool state; worlds exclude unsafe certificate sets by construction",
        "DESIGN.md §5 C08",
    ),
    "C11": (
        "proptest over four shredders x payload lengths x index subsets; round-trip + byte-identical refill + untouched-on-error oracles",
        "Generated-input search: every padding residue and limit-adjacent length, subset sizes around 32, error paths (too few shreds, mixed slices, validly coded but undecodable content) with the array compared byte for byte before and after; regenerated shreds re-validated from scratch against the leader key.",
        "Ed25519/SHA-256 trusted; all-or-nothing shredders use the thread RNG for their key (irrelevant to round-trip oracles)",
        "DESIGN.md §5 C11",
    ),
    "C16": (
        "proptest over validator sets / fanouts / shred triples with two independently built instance sets and a simulated fault-free delivery",
        "Generated-input search: leader destination and every node's forward set are compared across two independently constructed instance sets, call orders and cache states (incl. sampler / fanout swapped after warm-up), and the recorded sends are simulated to check that every non-leader validator receives each shred exactly once.",
        "recording network instead of sockets; no loss (premise of the property); the end-to-end node path is exercised by the node simulation of C02/C10",
        "DESIGN.md §5 C16",
    ),
    "C17": (
        "proptest over all twelve shipped sampling strategies with boundary stake patterns; exact-integer floor oracle, determinism and two-instance agreement",
        "Generated-input search over validator counts up to 2000, stake patterns that land exactly on seat boundaries, committee sizes and seeds; drawing a committee must leave no state behind (a later single draw equals a fresh instance's); construction panics are keyed by (strategy, message) and listed as known findings so that the search continues behind them.",
        "statistical quality is out of scope; decaying-acceptance cases stay in the documented operating range",
        "DESIGN.md §5 C17",
    ),
    "C19": (
        "proptest wire-level builders for every message type + byte mutation + arbitrary bytes; round-trip / stability / rejection oracles; real loopback UDP for the transport decoder",
        "Generated-input search: canonical encodings built independently of the crate's encoder must decode and re-encode identically, accessors must agree, out-of-range indices / oversized masks / trailing bytes must be rejected, anything decodable must re-encode stably, emitted messages must fit 1500 bytes; about a hundred cases per quick run send bursts of valid, junk-suffixed and empty datagrams to a receiving UdpNetwork on loopback, which must deliver exactly the valid ones, once, in order and unaltered.",
        "loopback UDP available (otherwise those cases are labelled unavailable, never a violation)",
        "DESIGN.md §5 C19",
    ),
    "C20": (
        "proptest stateful op sequences over a forest of forks against BTreeMap models; reference fold for the placeholder engine",
        "Generated-input search with adversarially clustered keys (prefixes shared up to 255 bits, differences on 5-bit chunk boundaries), forks, empty values; every op's return value, ordered iteration, isolation, structural equality and the incrementally observed commitment are compared with per-fork BTreeMap models; engine commitments are compared with a reference fold over the parent's reported commitment, including blocks begun again while in progress.",
        "SHA-256 trusted; at most one pending block per slot and no ambiguous parent hashes (as the trait documents)",
        "DESIGN.md §5 C20",
    ),
    "C15": (
        "proptest generated trees + mutation of (leaf, index, root, proof) against an independent reference Merkle tree (semantic truth model)",
        "Generated-input search: every tuple derived from a real tree by 0..3 mutations is decided by an independent reference tree over the padded leaf list (exact iff-oracle for check_proof and check_proof_last, incl. subtree roots); 12 % of the cases are virtual trees of height 0..=40 defined by a leaf, an index and a sibling path (honest tuples verify iff height <= 32, altered ones never); shrunk counterexample on failure. Right level because the property is a pure function over inputs with an executable exact oracle.",
        "SHA-256 collision resistance; leaf counts <= 4097; proptest RNG seeded from VERIF_SEED",
        "DESIGN.md §5 C15",
    ),
    "C18": (
        "proptest pool histories with standstill triggers at generated prefixes; bundle validity + replay into a fresh pool (differential) + real Votor forwarding",
        "Generated-input search over consistent worlds with recovery triggered at generated points (incl. empty history); the bundle is checked for completeness against the certificates the pool reported and the accepted own votes, validated as a receiver would, replayed into a fresh pool of another identity (same finalized slot, same ready parents) and pushed through a real Votor that has pruned ahead.",
        "worlds exclude unsafe certificate sets; the Votor runs on a paused single-thread runtime",
        "DESIGN.md §5 C18",
    ),
}

NOT_YET = "check under construction in this round; will be claimed once its generator and oracle are built and sensitivity-tested"

def main():
    props = [json.loads(l) for l in open('/verif/properties.jsonl')]
    hooks_commits = subprocess.run(
        ["git", "-C", "/repo", "log", "--format=%h %s", "--grep=^verif-hooks"], capture_output=True, text=True
    ).stdout.strip().splitlines()
    checks = []
    na = []
    for p in props:
        pid = p["id"]
        if pid in CLAIMED:
            tech, text, note, ref = CLAIMED[pid]
            checks.append({
                "property_id": pid,
                "quick_cmd": f"./check {pid} --tier quick",
                "thorough_cmd": f"./check {pid} --tier thorough",
                "evidence_file": f"/verif/evidence/{pid}.json",
                "replay_cmd_template": f"./check {pid} --replay {{path}}",
                "engine": "verif-engine",
                "level_claimed": {"category": "exploration", "text": text, "design_ref": ref},
                "level_note": note,
                "technique": tech,
            })
        else:
            na.append({"property_id": pid, "reason": NOT_YET})
    manifest = {
        "version": 1,
        "setup_cmd": "./check build",
        "hooks": {
            "guard": "cargo feature verif-hooks",
            "enable": "the harness crate /verif/harness depends on alpenglow with features [test-utils, verif-hooks] (path dependency on /repo), built with --cfg tokio_unstable",
            "baseline_off_cmd": "cd /repo && (cargo nextest run --workspace --no-fail-fast --test-threads 8 --offline || cargo test --workspace --no-fail-fast --offline)",
            "source_commits": [c.split()[0] for c in hooks_commits],
            "add_only": False,
        },
        "engines": [{
            "name": "verif-engine",
            "path": "/verif/harness",
            "serves_properties": sorted(CLAIMED),
            "kind_free_text": "Rust binary: proptest TestRunner campaigns (fixed work, 16 workers, seeded from VERIF_SEED) with per-property generators, explicit oracles (reference models, differential, round-trip, history invariants), shrinking to replay JSON, known-findings protocol; in the thorough tier of thirteen properties additionally a coverage-guided libFuzzer campaign (/verif/fuzz, one generic target: the fuzzer's bytes are the random stream of the property's own generator, the oracle is the property's own; 16 processes, fixed executions)",
        }],
        "checks": checks,
        "not_applicable": na,
        "notes": "All checks rebuild the harness against /repo's working tree first. Exit 2 = inconclusive (build failure / harness error), never used to hide a violation. Known findings: /verif/known_findings.json.",
    }
    json.dump(manifest, open('/verif/MANIFEST.json', 'w'), indent=1)
    print(f"claimed {len(checks)}, not_applicable {len(na)}")

if __name__ == "__main__":
    main()
