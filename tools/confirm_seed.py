#!/usr/bin/env python3
"""Confirms a seeded change delivered by a sub-agent and files it under /verif/seeded/<ID>-<X>/.

usage: confirm_seed.py <ID> <X> [--breaks ID]   (reads /tmp/seed-out/<ID>/<X>/{patch.diff,demo.diff,notes.md})
Steps (in the scratch worktree /tmp/confirm of /repo HEAD, own target dir):
  demo alone passes; demo + patch fails; patch alone: existing suite = 254 passed / 9 baseline failures.
"""
import json, os, re, subprocess, sys, shutil, time

WT = "/tmp/confirm"
ENV = dict(os.environ, CARGO_TARGET_DIR=f"{WT}/target", CARGO_NET_OFFLINE="true")

def sh(cmd, **kw):
    return subprocess.run(cmd, shell=True, cwd=WT, env=ENV, capture_output=True, text=True, **kw)

def main():
    pid, x = sys.argv[1], sys.argv[2]
    src = f"/tmp/seed-out/{pid}/{x}"
    notes = open(f"{src}/notes.md").read()
    m = re.search(r"cargo test --offline[^`\n]*", notes)
    if not m:
        print("no demo command in notes"); return 2
    demo_cmd = m.group(0).strip()
    if not os.path.isdir(WT):
        subprocess.run(f"git -C /repo worktree add -q --detach {WT} HEAD", shell=True, check=True)
    head = subprocess.run("git -C /repo rev-parse --short HEAD", shell=True, capture_output=True, text=True).stdout.strip()
    sh(f"git checkout -q --detach {head} && git reset -q --hard && git clean -qfd -e target")
    res = {"property": pid, "variant": x, "repo_head": head, "demo_cmd": demo_cmd}
    r = sh(f"git apply {src}/demo.diff")
    if r.returncode: print("demo.diff does not apply", r.stderr); return 2
    r = sh(demo_cmd); res["demo_without_change"] = "pass" if r.returncode == 0 else "FAIL"
    r = sh(f"git apply {src}/patch.diff || git apply --3way {src}/patch.diff")
    if r.returncode: print("patch.diff does not apply", r.stderr); return 2
    r = sh(demo_cmd); res["demo_with_change"] = "fail" if r.returncode != 0 else "PASS"
    sh(f"git apply -R {src}/demo.diff")
    r = sh("cargo nextest run --workspace --no-fail-fast --test-threads 8 --offline 2>&1 | grep -E 'Summary|^error: could not compile'")
    res["suite_with_change"] = r.stdout.strip()
    if "254 passed" not in res["suite_with_change"]:
        # timing-sensitive tests (token bucket, udp) can fail under load: one retry, listing failures
        r = sh("cargo nextest run --workspace --no-fail-fast --test-threads 4 --offline 2>&1 | grep -E 'Summary|^error: could not compile|^ +FAIL'")
        res["suite_with_change_retry"] = r.stdout.strip()
        if "254 passed" in r.stdout:
            res["suite_with_change"] = [l for l in r.stdout.splitlines() if "Summary" in l][0].strip()
    ok = res["demo_without_change"] == "pass" and res["demo_with_change"] == "fail" and "254 passed" in res["suite_with_change"]
    res["confirmed"] = ok
    sh("git reset -q --hard && git clean -qfd -e target")
    print(json.dumps(res, indent=1))
    if ok:
        dst = f"/verif/seeded/{pid}-{x}"
        os.makedirs(dst, exist_ok=True)
        for f in ("patch.diff", "demo.diff", "notes.md"):
            shutil.copy(f"{src}/{f}", f"{dst}/{f}")
        first = [l for l in notes.splitlines() if l.strip()][0].lstrip("# ").strip()
        need = ""
        mm = re.search(r"(?is)##[^\n]*(needed|manifest|trigger)[^\n]*\n(.*?)(\n## |\Z)", notes)
        if mm: need = " ".join(mm.group(2).split())[:900]
        meta = {"breaks_property": pid, "title": first, "needs_to_manifest": need,
                "what_was_run": {"scratch_worktree": WT, "repo_head": head, "demo_cmd": demo_cmd,
                                  "demo_without_change": res["demo_without_change"], "demo_with_change": res["demo_with_change"],
                                  "existing_suite_with_change": res["suite_with_change"],
                                  "date": time.strftime("%Y-%m-%d")},
                "detected_by": []}
        json.dump(meta, open(f"{dst}/meta.json", "w"), indent=1)
    return 0 if ok else 1

if __name__ == "__main__":
    sys.exit(main())
