#![no_main]
//! Coverage-guided driver for the property checks of /verif/harness (see DESIGN.md §2.7).

use libfuzzer_sys::fuzz_target;

fuzz_target!(|data: &[u8]| {
    verif_engine::fuzz::one(data);
});
